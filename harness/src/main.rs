mod alloc_count;
mod boxsched;
mod charsdump;
mod lifecycle;
mod mtrace;
mod nucsched;
mod ptrace;
mod sched;
mod sorttrace;
mod strace;
mod utrace;
mod workersort;
mod universe;

use std::collections::HashMap;

fn args() -> (String, HashMap<String, String>) {
    let mut it = std::env::args().skip(1);
    let cmd = it.next().unwrap_or_default();
    let mut m = HashMap::new();
    let rest: Vec<String> = it.collect();
    let mut i = 0;
    while i < rest.len() {
        let k = rest[i].trim_start_matches("--").to_string();
        let v = rest.get(i + 1).cloned().unwrap_or_default();
        m.insert(k, v);
        i += 2;
    }
    (cmd, m)
}

fn main() {
    let (cmd, a) = args();
    let get = |k: &str, d: &str| a.get(k).cloned().unwrap_or_else(|| d.to_string());
    let universe = get("universe", "/verif/lib/universe.txt");
    match cmd.as_str() {
        "chardb" => universe::write_chardb(&universe, &get("out", "/verif/work/chardb.ndjson")),
        "chars-dump" => charsdump::run(&get("out", "/verif/work/charsdump.ndjson")),
        "pattern-trace" => ptrace::run(&get("tier", "quick"), get("seed", "1").parse().unwrap(), get("shards", "8").parse().unwrap(), &get("out", "/verif/work/ptrace")),
        "utf32-trace" => utrace::run(&get("tier", "quick"), get("seed", "1").parse().unwrap(), get("shards", "8").parse().unwrap(), &get("out", "/verif/work/utrace")),
        "score-trace" => strace::run(&get("tier", "quick"), get("seed", "1").parse().unwrap(), get("shards", "8").parse().unwrap(), &get("out", "/verif/work/strace")),
        "worker-order" => workersort::run(&get("tier", "quick"), get("seed", "1").parse().unwrap(), get("shards", "8").parse().unwrap(), &get("out", "/verif/work/workerorder"), get("stress-only", "0") == "1"),
        "sort-trace" => sorttrace::run(&get("tier", "quick"), get("seed", "1").parse().unwrap(), get("shards", "8").parse().unwrap(), &get("out", "/verif/work/sorttrace")),
        "boxcar-sched" => boxsched::run(&get("tier", "quick"), get("seed", "1").parse().unwrap(), get("shards", "8").parse().unwrap(), &get("out", "/verif/work/boxsched"), a.get("only").map(|s| s.as_str()), a.get("shard").map(|s| s.parse().unwrap()), get("from", "0").parse().unwrap()),
        "nucleo-sched" => nucsched::run(&get("tier", "quick"), get("seed", "1").parse().unwrap(), get("shards", "8").parse().unwrap(), &get("out", "/verif/work/nucsched"), a.get("only").map(|s| s.as_str()), a.get("shard").map(|s| s.parse().unwrap()), get("from", "0").parse().unwrap()),
        "lifecycle-replay" => lifecycle::run(&get("scripts", "/verif/work/scripts.ndjson"), &get("out", "/verif/work/lifecycle.ndjson")),
        "matcher-one" => mtrace::run_one(&get("input", ""), &get("out", "/verif/work/one.ndjson")),
        "matcher-trace" => {
            let plan = mtrace::Plan {
                tier: get("tier", "quick"),
                seed: get("seed", "1").parse().unwrap(),
                universe: universe::load_universe(&universe),
                only: a.get("only").cloned(),
            };
            mtrace::run(plan, get("shards", "8").parse().unwrap(), &get("out", "/verif/work/mtrace"));
        }
        _ => {
            eprintln!("unknown subcommand {cmd:?}");
            std::process::exit(2);
        }
    }
}
