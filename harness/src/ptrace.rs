//! `pattern-trace`: parse records for spec/PatternTrace.tla (C14).
//! One record = one API call (Pattern::parse, Pattern::new(kind), Atom::parse, Atom::new, or a reparse
//! history on one Pattern object) with its text and settings and the atoms the real code produced.
use nucleo_matcher::pattern::{Atom, AtomKind, CaseMatching, Normalization, Pattern};
use rand::rngs::StdRng;
use rand::seq::SliceRandom;
use rand::{Rng, SeedableRng};
use std::fmt::Write as _;
use std::io::Write as _;

fn kind_code(k: AtomKind) -> &'static str {
    match k {
        AtomKind::Fuzzy => "F",
        AtomKind::Substring => "S",
        AtomKind::Prefix => "P",
        AtomKind::Postfix => "O",
        AtomKind::Exact => "E",
        _ => "?",
    }
}

pub fn atom_json(out: &mut String, a: &Atom) {
    let dbg = format!("{:?}", a);
    let ic = dbg.contains("ignore_case: true");
    let nz = dbg.contains("normalize: true");
    let t = a.needle_text();
    let _ = write!(out, "{{\"needle\":[");
    for (i, c) in t.chars().enumerate() {
        if i > 0 {
            out.push(',');
        }
        let _ = write!(out, "{}", c as u32);
    }
    let _ = write!(
        out,
        "],\"kind\":\"{}\",\"neg\":{},\"ic\":{},\"nz\":{},\"repr\":\"{}\"}}",
        kind_code(a.kind),
        a.negative,
        ic,
        nz,
        if t.is_ascii() { "A" } else { "U" }
    );
}

fn case_of(c: &str) -> CaseMatching {
    match c {
        "S" => CaseMatching::Smart,
        "I" => CaseMatching::Ignore,
        _ => CaseMatching::Respect,
    }
}
fn norm_of(n: &str) -> Normalization {
    match n {
        "S" => Normalization::Smart,
        _ => Normalization::Never,
    }
}
fn kind_of(k: &str) -> AtomKind {
    match k {
        "F" => AtomKind::Fuzzy,
        "S" => AtomKind::Substring,
        "P" => AtomKind::Prefix,
        "O" => AtomKind::Postfix,
        _ => AtomKind::Exact,
    }
}

fn cps(out: &mut String, s: &str) {
    out.push('[');
    for (i, c) in s.chars().enumerate() {
        if i > 0 {
            out.push(',');
        }
        let _ = write!(out, "{}", c as u32);
    }
    out.push(']');
}

fn atoms_json(out: &mut String, atoms: &[Atom]) {
    out.push('[');
    for (i, a) in atoms.iter().enumerate() {
        if i > 0 {
            out.push(',');
        }
        atom_json(out, a);
    }
    out.push(']');
}

/// api: "parse" | "new" | "atom_parse" | "atom_new" | "atom_new_raw"
pub fn record(id: u64, api: &str, kind: &str, case: &str, norm: &str, text: &str, prev: &[String]) -> String {
    let mut out = String::new();
    let _ = write!(out, "{{\"id\":{},\"api\":\"{}\",\"kind\":\"{}\",\"case\":\"{}\",\"norm\":\"{}\",\"text\":", id, api, kind, case, norm);
    cps(&mut out, text);
    let _ = write!(out, ",\"hist\":{}", prev.len());
    let (cm, nm) = (case_of(case), norm_of(norm));
    let res = std::panic::catch_unwind(|| -> Vec<Atom> {
        match api {
            "parse" => {
                if prev.is_empty() {
                    Pattern::parse(text, cm, nm).atoms
                } else {
                    // a reparse history on one object; earlier texts use rotating settings
                    let settings = [("S", "S"), ("I", "N"), ("R", "S")];
                    let mut p = Pattern::parse(&prev[0], case_of(settings[0].0), norm_of(settings[0].1));
                    for (k, t) in prev.iter().enumerate().skip(1) {
                        let s = settings[k % 3];
                        p.reparse(t, case_of(s.0), norm_of(s.1));
                    }
                    p.reparse(text, cm, nm);
                    p.atoms
                }
            }
            "new" => Pattern::new(text, cm, nm, kind_of(kind)).atoms,
            "atom_parse" => vec![Atom::parse(text, cm, nm)],
            "atom_new" => vec![Atom::new(text, cm, nm, kind_of(kind), true)],
            "atom_new_raw" => vec![Atom::new(text, cm, nm, kind_of(kind), false)],
            _ => unreachable!(),
        }
    });
    match res {
        Ok(atoms) => {
            out.push_str(",\"panic\":false,\"atoms\":");
            atoms_json(&mut out, &atoms);
        }
        Err(_) => out.push_str(",\"panic\":true,\"atoms\":[]"),
    }
    out.push('}');
    out
}

pub fn run(tier: &str, seed: u64, shards: usize, outdir: &str) {
    std::fs::create_dir_all(outdir).unwrap();
    let thorough = tier == "thorough";
    let alpha: Vec<char> = "!^'$\\ \t\u{3000}aBäÄほ".chars().collect();
    let settings: Vec<(&str, &str)> = vec![("S", "S"), ("S", "N"), ("I", "S"), ("I", "N"), ("R", "S"), ("R", "N")];
    let kinds = ["F", "S", "P", "O", "E"];
    std::panic::set_hook(Box::new(|_| {}));
    let mut files: Vec<std::io::BufWriter<std::fs::File>> = (0..shards)
        .map(|k| std::io::BufWriter::new(std::fs::File::create(format!("{}/shard-{:02}.ndjson", outdir, k)).unwrap()))
        .collect();
    let mut id = 0u64;
    let mut emit = |rec: String, id: u64| {
        writeln!(files[(id as usize) % shards], "{}", rec).unwrap();
    };
    // exhaustive: every text of length <= L over the alphabet, all settings, Pattern::parse (+ the other APIs strided)
    let l = if thorough { 5 } else { 4 };
    let stride: u64 = if thorough { 6 } else { 1 };
    let k = alpha.len() as u64;
    let mut rng = StdRng::seed_from_u64(seed ^ 0x50);
    let mut ord = 0u64;
    for len in 0..=l {
        for code in 0..k.pow(len as u32) {
            let mut x = code;
            let mut t = String::new();
            for _ in 0..len {
                t.push(alpha[(x % k) as usize]);
                x /= k;
            }
            for (si, (c, n)) in settings.iter().enumerate() {
                ord += 1;
                if len >= 4 && (ord.wrapping_mul(0x9E3779B97F4A7C15) >> 20) % stride != 0 && stride > 1 {
                    continue;
                }
                id += 1;
                emit(record(id, "parse", "F", c, n, &t, &[]), id);
                // other entry points on a rotating subset
                match (code as usize + si) % 6 {
                    0 => {
                        id += 1;
                        let kd = kinds[(code as usize) % 5];
                        emit(record(id, "new", kd, c, n, &t, &[]), id);
                    }
                    1 => {
                        id += 1;
                        emit(record(id, "atom_parse", "F", c, n, &t, &[]), id);
                    }
                    2 => {
                        id += 1;
                        let kd = kinds[(code as usize) % 5];
                        emit(record(id, "atom_new", kd, c, n, &t, &[]), id);
                    }
                    3 => {
                        id += 1;
                        let kd = kinds[(code as usize) % 5];
                        emit(record(id, "atom_new_raw", kd, c, n, &t, &[]), id);
                    }
                    _ => {}
                }
            }
        }
    }
    // exhaustive again over the characters whose stored form differs from what was typed: combining
    // marks and prepended characters swallowed by their cluster (U+0345 counts as upper case, U+0600
    // swallows what follows), and letters whose case folding changes whether they would be normalised
    let edge: Vec<char> = "α\u{345}\u{600}Aaẞ\u{23a}\u{212b}\u{301}\\ $".chars().collect();
    let ke = edge.len() as u64;
    for len in 1..=3u32 {
        for code in 0..ke.pow(len) {
            let mut x = code;
            let mut t = String::new();
            for _ in 0..len {
                t.push(edge[(x % ke) as usize]);
                x /= ke;
            }
            for (si, (c, n)) in settings.iter().enumerate() {
                id += 1;
                emit(record(id, "parse", "F", c, n, &t, &[]), id);
                let kd = kinds[(code as usize) % 5];
                id += 1;
                match (code as usize + si) % 3 {
                    0 => emit(record(id, "new", kd, c, n, &t, &[]), id),
                    1 => emit(record(id, "atom_new", kd, c, n, &t, &[]), id),
                    _ => emit(record(id, "atom_new_raw", kd, c, n, &t, &[]), id),
                }
            }
        }
    }
    // random longer texts over a wider alphabet, and reparse histories
    let wide: Vec<char> = "!^'$\\ \t\n\u{b}\u{a0}\u{3000}\u{2003}abcXYZ09-_/äÄßςσΣほаБ½ǅα\u{345}\u{600}\u{301}ẞ\u{23a}\u{212b}".chars().collect();
    let nrand = if thorough { 200_000 } else { 20_000 };
    let gen_text = |rng: &mut StdRng, maxlen: usize| -> String {
        let n = rng.gen_range(0..=maxlen);
        (0..n).map(|_| *if rng.gen_bool(0.5) { alpha.choose(rng).unwrap() } else { wide.choose(rng).unwrap() }).collect()
    };
    for _ in 0..nrand {
        let (c, n) = *settings.choose(&mut rng).unwrap();
        let t = gen_text(&mut rng, 24);
        id += 1;
        match rng.gen_range(0..10) {
            0..=4 => emit(record(id, "parse", "F", c, n, &t, &[]), id),
            5 => emit(record(id, "new", kinds.choose(&mut rng).unwrap(), c, n, &t, &[]), id),
            6 => emit(record(id, "atom_parse", "F", c, n, &t, &[]), id),
            7 => emit(record(id, "atom_new", kinds.choose(&mut rng).unwrap(), c, n, &t, &[]), id),
            _ => {
                let hl = rng.gen_range(1..=3);
                let mut prev: Vec<String> = Vec::new();
                for _ in 0..hl {
                    // histories of related texts: typed prefixes, marker toggles, unrelated texts
                    let p = match rng.gen_range(0..4) {
                        0 if !t.is_empty() => t.chars().take(rng.gen_range(0..=t.chars().count())).collect(),
                        1 => format!("{}$", t),
                        2 => format!("!{}", t),
                        _ => gen_text(&mut rng, 12),
                    };
                    prev.push(p);
                }
                emit(record(id, "parse", "F", c, n, &t, &prev), id)
            }
        }
    }
    drop(emit);
    for f in files.iter_mut() {
        f.flush().unwrap();
    }
    let _ = std::panic::take_hook();
    println!("{{\"records\":{},\"shards\":{}}}", id, shards);
}
