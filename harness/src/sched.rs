//! The controlled scheduler: a `nucleo::verif::Sink` that serialises every instrumented operation
//! (atomics of the shim, named hooks, harness-level call/return markers) and decides, at every such
//! operation, which of the threads waiting at their next operation goes first.
//!
//! Protocol: `pre` parks the calling thread until the controller grants it; the operation then executes
//! alone; `post` logs it (global sequence number = true execution order) and hands control back.  Code
//! between two instrumented operations runs freely.  Policies: `Free` (first come first served),
//! `Random` (seeded choice among the threads parked after a short settling time, with an optional bias that
//! keeps one victim thread parked as long as possible) and `Script` (wait for a given role at a given site).
use nucleo::verif::{Ev, Sink};
use rand::rngs::StdRng;
use rand::{Rng, SeedableRng};
use std::collections::HashMap;
use std::sync::{Arc, Condvar, Mutex};
use std::thread::ThreadId;
use std::time::{Duration, Instant};

#[derive(Clone, Debug)]
pub struct Logged {
    pub seq: u64,
    pub tid: usize,
    pub role: String,
    pub ev: Ev,
    /// free-form JSON payload for harness-level events (call / ret / notify ...)
    pub user: Option<String>,
}

#[derive(Clone, Debug)]
pub enum Policy {
    Free,
    /// seed, settle time in microseconds
    Random(u64, u64),
    /// (role, site prefix) steps; after the script is exhausted continue with Random
    Script(Vec<(String, String)>, u64),
}

/// Forced-replay rule: a thread whose role starts with `block.0` and that is parked at a site starting with
/// `block.1` is not eligible until some thread whose role starts with `until.0` has executed a site starting
/// with `until.1` (counted from the moment the rule was installed).
#[derive(Clone, Debug)]
pub struct Rule {
    pub block: (String, String),
    pub until: (String, String),
    pub satisfied: bool,
    /// the rule only becomes active once some thread (role prefix, site prefix) has executed this
    pub after: Option<(String, String)>,
    pub armed: bool,
}

#[derive(Clone, Debug, PartialEq)]
enum Status {
    Running,
    Parked,
    Blocked,
}

struct TInfo {
    tid: usize,
    role: String,
    status: Status,
    site: String,
    parked_at: Instant,
}

struct State {
    threads: HashMap<ThreadId, TInfo>,
    next_tid: usize,
    granted: Option<ThreadId>,
    in_op: bool,
    seq: u64,
    log: Vec<Logged>,
    policy: Policy,
    rng: StdRng,
    script_pos: usize,
    script_failed: Option<String>,
    last_change: Instant,
    stop: bool,
    decisions: Vec<(usize, String, usize)>, // (tid, site, number of parked candidates)
    /// per-role probability weights (PCT-like starvation of one role)
    starve: Option<String>,
    rules: Vec<Rule>,
}

pub struct Sched {
    st: Mutex<State>,
    cv: Condvar,
}

thread_local! {
    static ROLE: std::cell::RefCell<Option<String>> = const { std::cell::RefCell::new(None) };
}

pub fn set_role(r: &str) {
    ROLE.with(|x| *x.borrow_mut() = Some(r.to_string()));
}

fn role_of_current() -> String {
    if let Some(r) = ROLE.with(|x| x.borrow().clone()) {
        return r;
    }
    if let Some(i) = rayon::current_thread_index() {
        return format!("pool{}", i);
    }
    "anon".to_string()
}

impl Sched {
    pub fn new(policy: Policy) -> Arc<Sched> {
        let seed = match &policy {
            Policy::Random(s, _) => *s,
            Policy::Script(_, s) => *s,
            Policy::Free => 0,
        };
        let s = Arc::new(Sched {
            st: Mutex::new(State {
                threads: HashMap::new(),
                next_tid: 0,
                granted: None,
                in_op: false,
                seq: 0,
                log: Vec::new(),
                policy,
                rng: StdRng::seed_from_u64(seed),
                script_pos: 0,
                script_failed: None,
                last_change: Instant::now(),
                stop: false,
                decisions: Vec::new(),
                starve: None,
                rules: Vec::new(),
            }),
            cv: Condvar::new(),
        });
        let c = s.clone();
        std::thread::Builder::new().name("sched-controller".into()).spawn(move || c.controller()).unwrap();
        s
    }

    pub fn add_rule(&self, block: (&str, &str), until: (&str, &str)) {
        self.st.lock().unwrap().rules.push(Rule {
            block: (block.0.to_string(), block.1.to_string()),
            until: (until.0.to_string(), until.1.to_string()),
            satisfied: false,
            after: None,
            armed: true,
        });
    }

    /// "once `after` has happened, hold `block` until `until` has happened"
    pub fn add_rule_after(&self, after: (&str, &str), block: (&str, &str), until: (&str, &str)) {
        self.st.lock().unwrap().rules.push(Rule {
            block: (block.0.to_string(), block.1.to_string()),
            until: (until.0.to_string(), until.1.to_string()),
            satisfied: false,
            after: Some((after.0.to_string(), after.1.to_string())),
            armed: false,
        });
    }

    fn rule_blocked(st: &State, t: &TInfo) -> bool {
        st.rules.iter().any(|r| r.armed && !r.satisfied && t.role.starts_with(&r.block.0) && t.site.starts_with(&r.block.1))
    }

    pub fn starve(&self, role: Option<&str>) {
        self.st.lock().unwrap().starve = role.map(|s| s.to_string());
    }

    fn info<'a>(st: &'a mut State, id: ThreadId) -> &'a mut TInfo {
        if !st.threads.contains_key(&id) {
            st.next_tid += 1;
        }
        let n = st.next_tid - 1;
        st.threads.entry(id).or_insert_with(|| TInfo {
            tid: n,
            role: role_of_current(),
            status: Status::Running,
            site: String::new(),
            parked_at: Instant::now(),
        })
    }

    fn controller(&self) {
        let mut st = self.st.lock().unwrap();
        loop {
            if st.stop {
                return;
            }
            if st.granted.is_none() && !st.in_op {
                let now = Instant::now();
                let parked: Vec<ThreadId> = st
                    .threads
                    .iter()
                    .filter(|(_, t)| t.status == Status::Parked && !Self::rule_blocked(&st, t))
                    .map(|(k, _)| *k)
                    .collect();
                if parked.is_empty() {
                    let blocked = st.threads.values().any(|t| t.status == Status::Parked && Self::rule_blocked(&st, t));
                    let running = st.threads.values().any(|t| t.status == Status::Running);
                    if blocked && !running && now.duration_since(st.last_change) > Duration::from_millis(60) {
                        // the awaited event cannot happen (the code under test orders these steps differently): a forced
                        // schedule that is impossible is simply dropped
                        for r in st.rules.iter_mut() {
                            if r.armed && !r.satisfied {
                                r.satisfied = true;
                            }
                        }
                        st.last_change = now;
                    }
                }
                if !parked.is_empty() {
                    let choice: Option<ThreadId> = match st.policy.clone() {
                        Policy::Free => parked.iter().min_by_key(|k| st.threads[k].parked_at).copied(),
                        Policy::Random(_, settle) => self.random_choice(&mut st, &parked, now, settle),
                        Policy::Script(steps, settle) => {
                            if st.script_pos < steps.len() {
                                let (role, site) = steps[st.script_pos].clone();
                                let m = parked.iter().find(|k| st.threads[k].role == role && st.threads[k].site.starts_with(&site)).copied();
                                match m {
                                    Some(k) => {
                                        st.script_pos += 1;
                                        Some(k)
                                    }
                                    None => {
                                        // the wanted thread may be parked at another site: let it advance if it is
                                        // the only way forward; otherwise wait (bounded)
                                        if now.duration_since(st.last_change) > Duration::from_millis(1500) {
                                            st.script_failed = Some(format!("step {} ({} @ {}) never became enabled", st.script_pos, role, site));
                                            st.policy = Policy::Random(7, settle);
                                        }
                                        None
                                    }
                                }
                            } else {
                                self.random_choice(&mut st, &parked, now, settle)
                            }
                        }
                    };
                    if let Some(k) = choice {
                        let n = parked.len();
                        let (tid, site) = {
                            let t = &st.threads[&k];
                            (t.tid, t.site.clone())
                        };
                        st.decisions.push((tid, site, n));
                        st.granted = Some(k);
                        st.last_change = now;
                        self.cv.notify_all();
                    }
                }
            }
            let (g, _) = self.cv.wait_timeout(st, Duration::from_micros(100)).unwrap();
            st = g;
        }
    }

    fn random_choice(&self, st: &mut State, parked: &[ThreadId], now: Instant, settle: u64) -> Option<ThreadId> {
        // wait until every known thread that is neither blocked nor parked has had time to arrive
        let running = st.threads.values().filter(|t| t.status == Status::Running).count();
        if running > 0 && now.duration_since(st.last_change) < Duration::from_micros(settle) {
            return None;
        }
        let mut cands: Vec<ThreadId> = parked.to_vec();
        cands.sort_by_key(|k| st.threads[k].tid);
        if let Some(v) = &st.starve {
            let others: Vec<ThreadId> = cands.iter().filter(|k| !st.threads[k].role.starts_with(v.as_str())).copied().collect();
            if !others.is_empty() && st.rng.gen_bool(0.9) {
                cands = others;
            }
        }
        let i = st.rng.gen_range(0..cands.len());
        Some(cands[i])
    }

    /// harness-level ordering point with a JSON payload
    pub fn user(&self, site: &'static str, payload: String) {
        let ev = Ev { site, addr: 0, op: "", ord: "", ord_fail: "", val: 0, ok: true, args: [0; 4], file: "" };
        self.pre(&ev);
        self.post_with(&ev, Some(payload));
    }

    fn post_with(&self, ev: &Ev, user: Option<String>) {
        let id = std::thread::current().id();
        let mut st = self.st.lock().unwrap();
        st.seq += 1;
        let seq = st.seq;
        let (tid, role) = {
            let t = Self::info(&mut st, id);
            t.status = Status::Running;
            (t.tid, t.role.clone())
        };
        let site = if ev.site == "atomic" { format!("atomic.{}", ev.op) } else { ev.site.to_string() };
        for r in st.rules.iter_mut() {
            if r.armed && !r.satisfied && role.starts_with(&r.until.0) && site.starts_with(&r.until.1) {
                r.satisfied = true;
            }
            if !r.armed {
                if let Some((ar, asite)) = &r.after {
                    if role.starts_with(ar.as_str()) && site.starts_with(asite.as_str()) {
                        r.armed = true;
                    }
                }
            }
        }
        st.log.push(Logged { seq, tid, role, ev: ev.clone(), user });
        st.in_op = false;
        st.last_change = Instant::now();
        self.cv.notify_all();
    }

    pub fn thread_blocked(&self, blocked: bool) {
        let id = std::thread::current().id();
        let mut st = self.st.lock().unwrap();
        let t = Self::info(&mut st, id);
        t.status = if blocked { Status::Blocked } else { Status::Running };
        st.last_change = Instant::now();
        self.cv.notify_all();
    }

    /// the calling thread will not execute instrumented operations any more
    pub fn thread_done(&self) {
        let id = std::thread::current().id();
        let mut st = self.st.lock().unwrap();
        st.threads.remove(&id);
        st.last_change = Instant::now();
        self.cv.notify_all();
    }

    /// Blocks (as a "blocked" thread) until no instrumented operation has happened for `quiet` and no thread is
    /// parked or mid-operation; returns the number of events logged so far.
    pub fn wait_quiet(&self, quiet: Duration) -> u64 {
        self.thread_blocked(true);
        let deadline = Instant::now() + Duration::from_secs(10);
        loop {
            {
                let st = self.st.lock().unwrap();
                let parked = st.threads.values().any(|t| t.status == Status::Parked && !Self::rule_blocked(&st, t));
                if !parked && !st.in_op && st.granted.is_none() && Instant::now().duration_since(st.last_change) > quiet {
                    let n = st.seq;
                    drop(st);
                    self.thread_blocked(false);
                    return n;
                }
            }
            if Instant::now() > deadline {
                self.thread_blocked(false);
                return 0;
            }
            std::thread::sleep(Duration::from_micros(300));
        }
    }

    /// number of events with the given site logged after sequence number `after`
    pub fn count_since(&self, site: &str, after: u64) -> usize {
        let st = self.st.lock().unwrap();
        st.log.iter().filter(|l| l.seq > after && l.ev.site == site).count()
    }

    pub fn seq(&self) -> u64 {
        self.st.lock().unwrap().seq
    }

    pub fn finish(&self) -> (Vec<Logged>, Vec<(usize, String, usize)>, Option<String>) {
        let mut st = self.st.lock().unwrap();
        st.stop = true;
        self.cv.notify_all();
        (std::mem::take(&mut st.log), std::mem::take(&mut st.decisions), st.script_failed.clone())
    }
}

impl Sink for Sched {
    fn pre(&self, ev: &Ev) {
        let id = std::thread::current().id();
        let mut st = self.st.lock().unwrap();
        if st.stop {
            return;
        }
        {
            let t = Self::info(&mut st, id);
            t.status = Status::Parked;
            t.site = if ev.site == "atomic" { format!("atomic.{}", ev.op) } else { ev.site.to_string() };
            t.parked_at = Instant::now();
        }
        st.last_change = Instant::now();
        self.cv.notify_all();
        let deadline = Instant::now() + Duration::from_secs(20);
        while st.granted != Some(id) {
            if st.stop {
                return;
            }
            let (g, _) = self.cv.wait_timeout(st, Duration::from_millis(5)).unwrap();
            st = g;
            if Instant::now() > deadline {
                // never granted: the controller is stuck (should not happen); do not deadlock the process
                eprintln!("sched: thread {:?} waited 20 s at {}", id, ev.site);
                return;
            }
        }
        st.granted = None;
        st.in_op = true;
        Self::info(&mut st, id).status = Status::Running;
    }

    fn post(&self, ev: &Ev) {
        self.post_with(ev, None);
    }

    fn blocking(&self, begin: bool, _site: &'static str) {
        self.thread_blocked(begin);
    }
}

/// Shares one scheduler between the sink slot of the library and the harness.
pub struct SinkRef(pub Arc<Sched>);
impl Sink for SinkRef {
    fn pre(&self, ev: &Ev) {
        self.0.pre(ev)
    }
    fn post(&self, ev: &Ev) {
        self.0.post(ev)
    }
    fn blocking(&self, begin: bool, site: &'static str) {
        self.0.blocking(begin, site)
    }
}
