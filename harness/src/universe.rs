//! The case-analysis universe U (lib/universe.txt) and the CharDB dump consumed by spec/Chars.tla.
//!
//! Columns f / n / up come from the crate's *public* maps (`chars::to_lower_case`, `chars::normalize`,
//! `chars::is_upper_case`): by the `Matcher` documentation these are the maps a caller has to use to
//! pre-normalise a needle, so they define "the configured folding / normalisation" for C01-C05.
//! Whether they are *right* is C16's business.  The class columns come from std's `char` methods
//! (rustc's Unicode tables), i.e. not from any code under test.
use std::collections::BTreeSet;
use std::io::Write;

pub fn load_universe(path: &str) -> Vec<char> {
    let txt = std::fs::read_to_string(path).expect("universe file");
    let mut set = BTreeSet::new();
    for l in txt.lines() {
        let l = l.trim();
        if l.is_empty() || l.starts_with('#') {
            continue;
        }
        let cp = u32::from_str_radix(l, 16).expect("hex code point");
        if let Some(c) = char::from_u32(cp) {
            set.insert(c);
        }
    }
    // close under the public maps
    loop {
        let mut add = Vec::new();
        for &c in &set {
            for d in [
                nucleo_matcher::chars::to_lower_case(c),
                nucleo_matcher::chars::normalize(c),
                nucleo_matcher::chars::to_lower_case(nucleo_matcher::chars::normalize(c)),
            ] {
                if !set.contains(&d) {
                    add.push(d);
                }
            }
        }
        if add.is_empty() {
            break;
        }
        set.extend(add);
    }
    set.into_iter().collect()
}

pub fn chardb_row(c: char) -> String {
    format!(
        "{{\"c\":{},\"f\":{},\"n\":{},\"up\":{},\"lo\":{},\"num\":{},\"al\":{},\"ws\":{}}}",
        c as u32,
        nucleo_matcher::chars::to_lower_case(c) as u32,
        nucleo_matcher::chars::normalize(c) as u32,
        nucleo_matcher::chars::is_upper_case(c),
        c.is_lowercase(),
        c.is_numeric(),
        c.is_alphabetic(),
        c.is_whitespace()
    )
}

pub fn write_chardb(universe: &str, out: &str) {
    let u = load_universe(universe);
    let mut f = std::io::BufWriter::new(std::fs::File::create(out).expect("create chardb"));
    for c in u {
        writeln!(f, "{}", chardb_row(c)).unwrap();
    }
}
