//! `matcher-trace`: drive every `Matcher` entry point and record call/return events for
//! spec/MatcherTrace.tla (properties C01-C05, C10).
//!
//! One record = one (haystack, needle, ic, nz, paths) input.  For every prefer_prefix value and every
//! representation combination that can hold the strings, a *block* of the 12 entry points is executed on a
//! freshly created matcher; identical blocks are encoded as `{"same": k}` (lossless).  Every call is then
//! repeated on a long-lived matcher that has served all earlier calls of this shard; calls whose outcome
//! differs from their fresh twin are listed under `hist` (lossless encoding of "used = fresh").
//! A panic is data: score -2 plus message.
use nucleo_matcher::{Config, Matcher, Utf32Str};
use rand::rngs::StdRng;
use rand::seq::SliceRandom;
use rand::{Rng, SeedableRng};
use std::collections::BTreeSet;
use std::fmt::Write as _;
use std::io::Write as _;
use std::panic::{catch_unwind, AssertUnwindSafe};

pub const FNS: [&str; 12] = [
    "fuzzy_indices",
    "fuzzy_match",
    "greedy_indices",
    "greedy_match",
    "substring_indices",
    "substring_match",
    "prefix_indices",
    "prefix_match",
    "postfix_indices",
    "postfix_match",
    "exact_indices",
    "exact_match",
];

#[derive(Clone, Copy, PartialEq, Eq, Debug)]
pub struct Cfg {
    pub ic: bool,
    pub nz: bool,
    pub paths: bool,
}

pub fn make_config(c: Cfg, pp: bool) -> Config {
    let mut cfg = if c.paths {
        Config::DEFAULT.match_paths()
    } else {
        Config::DEFAULT
    };
    cfg.ignore_case = c.ic;
    cfg.normalize = c.nz;
    cfg.prefer_prefix = pp;
    cfg
}

pub fn norm_char(c: char, cfg: Cfg) -> char {
    let mut c = c;
    if cfg.nz {
        c = nucleo_matcher::chars::normalize(c);
    }
    if cfg.ic {
        c = nucleo_matcher::chars::to_lower_case(c);
    }
    c
}

#[derive(Clone, PartialEq, Eq, Debug)]
pub struct Outcome {
    pub s: i64, // >= 0 score, -1 None, -2 panic
    pub after: Vec<u32>,
    pub msg: String,
}

enum Repr<'a> {
    A(&'a [u8]),
    U(&'a [char]),
}
impl<'a> Repr<'a> {
    fn get(&self) -> Utf32Str<'a> {
        match self {
            Repr::A(b) => Utf32Str::Ascii(b),
            Repr::U(c) => Utf32Str::Unicode(c),
        }
    }
}

pub fn call(m: &mut Matcher, f: usize, hay: Utf32Str<'_>, needle: Utf32Str<'_>, pre: &[u32]) -> Outcome {
    let mut idx: Vec<u32> = pre.to_vec();
    let r = catch_unwind(AssertUnwindSafe(|| match f {
        0 => m.fuzzy_indices(hay, needle, &mut idx),
        1 => m.fuzzy_match(hay, needle),
        2 => m.fuzzy_indices_greedy(hay, needle, &mut idx),
        3 => m.fuzzy_match_greedy(hay, needle),
        4 => m.substring_indices(hay, needle, &mut idx),
        5 => m.substring_match(hay, needle),
        6 => m.prefix_indices(hay, needle, &mut idx),
        7 => m.prefix_match(hay, needle),
        8 => m.postfix_indices(hay, needle, &mut idx),
        9 => m.postfix_match(hay, needle),
        10 => m.exact_indices(hay, needle, &mut idx),
        11 => m.exact_match(hay, needle),
        _ => unreachable!(),
    }));
    match r {
        Ok(Some(s)) => Outcome { s: s as i64, after: idx, msg: String::new() },
        Ok(None) => Outcome { s: -1, after: idx, msg: String::new() },
        Err(e) => {
            let msg = if let Some(s) = e.downcast_ref::<String>() {
                s.clone()
            } else if let Some(s) = e.downcast_ref::<&str>() {
                s.to_string()
            } else {
                "panic".to_string()
            };
            Outcome { s: -2, after: idx, msg }
        }
    }
}

pub struct Input {
    pub fam: &'static str,
    pub cfg: Cfg,
    pub hay: Vec<char>,
    pub needle: Vec<char>,
}

fn json_u32s<I: IntoIterator<Item = u32>>(out: &mut String, it: I) {
    out.push('[');
    let mut first = true;
    for v in it {
        if !first {
            out.push(',');
        }
        first = false;
        let _ = write!(out, "{}", v);
    }
    out.push(']');
}

fn json_str(out: &mut String, s: &str) {
    out.push_str(&serde_json::to_string(s).unwrap());
}

fn outcome_json(out: &mut String, o: &Outcome, with_after: bool) {
    // [score, after?, msg?]   score: >= 0 Some, -1 None, -2 panic
    let _ = write!(out, "[{}", o.s);
    if with_after {
        out.push(',');
        json_u32s(out, o.after.iter().copied());
    }
    if o.s == -2 {
        out.push(',');
        json_str(out, &o.msg);
    }
    out.push(']');
}

pub struct Session {
    used: Vec<Option<Matcher>>, // per (ic,nz,paths,pp)
    reconf: Matcher,            // one matcher for everything, reconfigured through its public field
    pub calls: u64,
    pub panics: u64,
}

impl Session {
    pub fn new() -> Self {
        Session { used: (0..16).map(|_| None).collect(), reconf: Matcher::default(), calls: 0, panics: 0 }
    }

    /// Executes one input and returns its ndjson record.
    pub fn run(&mut self, id: u64, inp: &Input, pre: &[u32]) -> String {
        let hay_ascii: Option<Vec<u8>> =
            inp.hay.iter().all(|c| c.is_ascii()).then(|| inp.hay.iter().map(|&c| c as u8).collect());
        let needle_ascii: Option<Vec<u8>> = inp
            .needle
            .iter()
            .all(|c| c.is_ascii())
            .then(|| inp.needle.iter().map(|&c| c as u8).collect());
        let mut hreprs: Vec<(&str, Repr)> = Vec::new();
        if let Some(b) = &hay_ascii {
            hreprs.push(("A", Repr::A(b)));
        }
        hreprs.push(("U", Repr::U(&inp.hay)));
        let mut nreprs: Vec<(&str, Repr)> = Vec::new();
        if let Some(b) = &needle_ascii {
            nreprs.push(("A", Repr::A(b)));
        }
        nreprs.push(("U", Repr::U(&inp.needle)));

        let _ = nucleo_matcher::verif::take_slab_views();
        let mut out = String::with_capacity(256 + 8 * (inp.hay.len() + inp.needle.len()));
        let _ = write!(
            out,
            "{{\"id\":{},\"fam\":\"{}\",\"ic\":{},\"nz\":{},\"paths\":{},\"hay\":",
            id, inp.fam, inp.cfg.ic, inp.cfg.nz, inp.cfg.paths
        );
        json_u32s(&mut out, inp.hay.iter().map(|&c| c as u32));
        out.push_str(",\"needle\":");
        json_u32s(&mut out, inp.needle.iter().map(|&c| c as u32));
        out.push_str(",\"pre\":");
        json_u32s(&mut out, pre.iter().copied());
        out.push_str(",\"blocks\":[");
        let mut blocks: Vec<Vec<Outcome>> = Vec::new();
        let mut hist = String::new();
        let mut first_block = true;
        for pp in [false, true] {
            let config = make_config(inp.cfg, pp);
            let slot = (inp.cfg.ic as usize) | (inp.cfg.nz as usize) << 1 | (inp.cfg.paths as usize) << 2 | (pp as usize) << 3;
            for (hn, h) in &hreprs {
                for (nn, n) in &nreprs {
                    let mut outs = Vec::with_capacity(12);
                    for f in 0..12 {
                        let mut fresh = Matcher::new(config.clone());
                        let o_fresh = call(&mut fresh, f, h.get(), n.get(), pre);
                        self.calls += 1;
                        // one long-lived matcher serves every configuration: its public `config` field is assigned
                        // before each call.  In every other record ITS results are the ones judged.
                        self.reconf.config = config.clone();
                        let o_reconf = call(&mut self.reconf, f, h.get(), n.get(), pre);
                        self.calls += 1;
                        let o = if id % 2 == 1 { o_reconf.clone() } else { o_fresh.clone() };
                        let other = if id % 2 == 1 { o_fresh } else { o_reconf };
                        if other != o {
                            if !hist.is_empty() {
                                hist.push(',');
                            }
                            let _ = write!(hist, "{{\"b\":{},\"f\":{},\"o\":", blocks.len() + 1, f + 1);
                            outcome_json(&mut hist, &other, f % 2 == 0);
                            hist.push('}');
                        }
                        if o.s == -2 {
                            self.panics += 1;
                        }
                        let used = self.used[slot].get_or_insert_with(|| Matcher::new(config.clone()));
                        let u = call(used, f, h.get(), n.get(), pre);
                        self.calls += 1;
                        if u != o {
                            if !hist.is_empty() {
                                hist.push(',');
                            }
                            let _ = write!(hist, "{{\"b\":{},\"f\":{},\"o\":", blocks.len() + 1, f + 1);
                            outcome_json(&mut hist, &u, f % 2 == 0);
                            hist.push('}');
                        }
                        outs.push(o);
                    }
                    if !first_block {
                        out.push(',');
                    }
                    first_block = false;
                    let _ = write!(out, "{{\"pp\":{},\"rh\":\"{}\",\"rn\":\"{}\"", pp, hn, nn);
                    // lossless compression: a block identical to an earlier one *with the same pp*
                    let same = blocks
                        .iter()
                        .enumerate()
                        .position(|(k, b)| *b == outs && (k < hreprs.len() * nreprs.len()) == !pp);
                    if let Some(k) = same {
                        let _ = write!(out, ",\"same\":{}}}", k + 1);
                    } else {
                        out.push_str(",\"same\":0,\"outs\":[");
                        for (f, o) in outs.iter().enumerate() {
                            if f > 0 {
                                out.push(',');
                            }
                            outcome_json(&mut out, o, f % 2 == 0);
                        }
                        out.push_str("]}");
                    }
                    blocks.push(outs);
                }
            }
        }
        // extents of every view the matcher formed into its scratch allocation while serving this record
        let mut views = nucleo_matcher::verif::take_slab_views();
        views.sort_by_key(|v| (v.haystack_len, v.needle_len, v.char_size, v.views));
        views.dedup();
        out.push_str("],\"slab\":[");
        for (k, v) in views.iter().enumerate() {
            if k > 0 {
                out.push(',');
            }
            let _ = write!(out, "{{\"h\":{},\"n\":{},\"csz\":{},\"size\":{},\"views\":[", v.haystack_len, v.needle_len, v.char_size, v.slab_size);
            for (j, (o, l)) in v.views.iter().enumerate() {
                if j > 0 {
                    out.push(',');
                }
                let _ = write!(out, "[{},{}]", o, l);
            }
            out.push_str("]}");
        }
        let _ = write!(out, "],\"hist\":[{}],\"ncalls\":{}}}", hist, blocks.len() * 24);
        out
    }
}

// ---------------------------------------------------------------------------------------------
// input families

fn cfgs() -> Vec<Cfg> {
    let mut v = Vec::new();
    for ic in [true, false] {
        for nz in [true, false] {
            for paths in [false, true] {
                v.push(Cfg { ic, nz, paths });
            }
        }
    }
    v
}

fn splitmix(mut x: u64) -> u64 {
    x = x.wrapping_add(0x9E3779B97F4A7C15);
    let mut z = x;
    z = (z ^ (z >> 30)).wrapping_mul(0xBF58476D1CE4E5B9);
    z = (z ^ (z >> 27)).wrapping_mul(0x94D049BB133111EB);
    z ^ (z >> 31)
}

fn subsequences(s: &[char], maxlen: usize) -> BTreeSet<Vec<char>> {
    let mut set: BTreeSet<Vec<char>> = BTreeSet::new();
    set.insert(vec![]);
    for &c in s {
        let mut add = Vec::new();
        for t in &set {
            if t.len() < maxlen {
                let mut t2 = t.clone();
                t2.push(c);
                add.push(t2);
            }
        }
        set.extend(add);
    }
    set
}

/// Family E: every haystack of length <= lh over `alpha`, every configuration, every distinct normalised
/// subsequence of length <= ln (all positives) plus `negs` non-matching needles; a stride keeps 1/stride of
/// the candidates (selected by a seeded hash of the candidate's ordinal, so E is a deterministic function of
/// the seed).
pub fn family_e(alpha: &[char], lh: usize, ln: usize, negs: usize, stride: u64, seed: u64, f: &mut dyn FnMut(Input)) {
    let cfgs = cfgs();
    let mut ord: u64 = 0;
    let k = alpha.len() as u64;
    // enumerate strings in length-lexicographic order
    for len in 0..=lh {
        for code in 0..k.pow(len as u32) {
            let mut x = code;
            let mut h: Vec<char> = Vec::with_capacity(len);
            for _ in 0..len {
                h.push(alpha[(x % k) as usize]);
                x /= k;
            }
            for &cfg in &cfgs {
                let hn: Vec<char> = h.iter().map(|&c| norm_char(c, cfg)).collect();
                let nalpha: Vec<char> = {
                    let s: BTreeSet<char> = alpha.iter().map(|&c| norm_char(c, cfg)).collect();
                    s.into_iter().collect()
                };
                let subs = subsequences(&hn, ln);
                let mut cands: Vec<Vec<char>> = subs.iter().cloned().collect();
                // negatives: deterministic pseudo-random strings over the normalised alphabet
                let mut tries = 0;
                let mut found = 0;
                while found < negs && tries < 20 {
                    let r = splitmix(seed ^ ord.wrapping_mul(31).wrapping_add(tries));
                    tries += 1;
                    let l = 1 + (r % ln as u64) as usize;
                    let mut x = r >> 8;
                    let mut nd = Vec::new();
                    for _ in 0..l {
                        nd.push(nalpha[(x % nalpha.len() as u64) as usize]);
                        x /= nalpha.len() as u64;
                    }
                    if !subs.contains(&nd) {
                        cands.push(nd);
                        found += 1;
                    }
                }
                for nd in cands {
                    ord += 1;
                    if splitmix(seed.wrapping_add(ord)) % stride == 0 {
                        f(Input { fam: "E", cfg, hay: h.clone(), needle: nd });
                    }
                }
            }
        }
    }
}

fn pick<'a, T>(rng: &mut StdRng, v: &'a [T]) -> &'a T {
    v.choose(rng).unwrap()
}

/// Family R: seeded random structured haystacks over U (word-like / path-like / camelCase / delimiter runs)
/// with needles derived from the normalised haystack (subsequence, substring, prefix, suffix, whole), perturbed
/// or unrelated.
pub fn family_r(u: &[char], count: u64, maxlen: usize, seed: u64, f: &mut dyn FnMut(Input)) {
    let cfgs = cfgs();
    let ascii_lower: Vec<char> = ('a'..='z').collect();
    let ascii_upper: Vec<char> = ('A'..='Z').collect();
    let digits: Vec<char> = ('0'..='9').collect();
    let delims: Vec<char> = "/,:;|-_. \t\\()[]".chars().collect();
    let non_ascii: Vec<char> = u.iter().copied().filter(|c| !c.is_ascii()).collect();
    let mut rng = StdRng::seed_from_u64(seed ^ 0x52);
    for _ in 0..count {
        let cfg = *pick(&mut rng, &cfgs);
        let unicode = rng.gen_bool(0.5);
        let target = if rng.gen_bool(0.9) { rng.gen_range(1..=maxlen.min(40)) } else { rng.gen_range(1..=maxlen) };
        let mut hay: Vec<char> = Vec::new();
        while hay.len() < target {
            match rng.gen_range(0..10) {
                0..=3 => {
                    // word, maybe capitalised / camel
                    let wl = rng.gen_range(1..6);
                    for j in 0..wl {
                        let c = if j == 0 && rng.gen_bool(0.4) || rng.gen_bool(0.1) {
                            *pick(&mut rng, &ascii_upper)
                        } else {
                            *pick(&mut rng, &ascii_lower)
                        };
                        hay.push(c);
                    }
                }
                4 => {
                    for _ in 0..rng.gen_range(1..4) {
                        hay.push(*pick(&mut rng, &digits));
                    }
                }
                5..=6 => {
                    for _ in 0..rng.gen_range(1..3) {
                        hay.push(*pick(&mut rng, &delims));
                    }
                }
                7..=8 if unicode => {
                    for _ in 0..rng.gen_range(1..4) {
                        hay.push(*pick(&mut rng, &non_ascii));
                    }
                }
                _ => hay.push(*pick(&mut rng, u)),
            }
        }
        hay.truncate(target);
        if !unicode {
            hay.retain(|c| c.is_ascii());
            if hay.is_empty() {
                hay.push('a');
            }
        }
        let hn: Vec<char> = hay.iter().map(|&c| norm_char(c, cfg)).collect();
        let n = hn.len();
        let mut needle: Vec<char> = match rng.gen_range(0..10) {
            0..=3 => {
                // subsequence
                let l = rng.gen_range(1..=n.min(8));
                let mut pos: Vec<usize> = (0..n).collect();
                pos.shuffle(&mut rng);
                pos.truncate(l);
                pos.sort();
                pos.iter().map(|&i| hn[i]).collect()
            }
            4..=5 => {
                let a = rng.gen_range(0..n);
                let b = rng.gen_range(a..n.min(a + 8)) + 1;
                hn[a..b.min(n)].to_vec()
            }
            6 => hn[..rng.gen_range(1..=n.min(8))].to_vec(),
            7 => hn[n - rng.gen_range(1..=n.min(8))..].to_vec(),
            8 => hn.clone(),
            _ => (0..rng.gen_range(1..5)).map(|_| norm_char(*pick(&mut rng, u), cfg)).collect(),
        };
        if rng.gen_bool(0.15) && !needle.is_empty() {
            // perturb one position
            let i = rng.gen_range(0..needle.len());
            needle[i] = norm_char(*pick(&mut rng, u), cfg);
        }
        // needles must be normalised (idempotence of the public maps is C16's business: re-apply until stable)
        for c in needle.iter_mut() {
            for _ in 0..3 {
                *c = norm_char(*c, cfg);
            }
        }
        f(Input { fam: "R", cfg, hay, needle });
    }
}

/// Family L: sizes on and around every limit of the implementation.
pub fn family_l(thorough: bool, seed: u64, f: &mut dyn FnMut(Input)) {
    let mut rng = StdRng::seed_from_u64(seed ^ 0x4c);
    let base = Cfg { ic: true, nz: true, paths: false };
    let all = cfgs();
    // empties and tiny
    for &cfg in &all {
        for (h, n) in [("", ""), ("", "a"), ("a", ""), ("a", "a"), ("a", "b"), ("a", "ab"), ("ab", "abc"), (" ", " "), (" a ", "a"), ("  ", " ")] {
            f(Input { fam: "L", cfg, hay: h.chars().collect(), needle: n.chars().collect() });
        }
    }
    let word = |rng: &mut StdRng, len: usize, uni: bool| -> Vec<char> {
        let a: Vec<char> = if uni { "abcxyz-/ _ä".chars().collect() } else { "abcxyz-/ _".chars().collect() };
        (0..len).map(|_| *a.choose(rng).unwrap()).collect()
    };
    // (haystack length, needle length) pairs around h*n = 102400, n = 2048, h = 65535, and the layout size bound
    let mut sizes: Vec<(usize, usize)> = vec![
        (1024, 100),
        (1025, 100),
        (1023, 100),
        (2048, 50),
        (2049, 50),
        (2047, 50),
        (320, 320),
        (321, 319),
        (3000, 34),
        (3012, 34),
        (2100, 2047),
        (2100, 2048),
        (2100, 2049),
        (2049, 2048),
        (5200, 5000),
        (5001, 5000),
        (20000, 5),
        (25600, 4),
        (25601, 4),
        (34000, 3),
        (34134, 3),
        (51200, 2),
        (51201, 2),
    ];
    if thorough {
        sizes.extend([(65535, 1), (65536, 1), (65535, 2), (65536, 2), (70000, 2), (70000, 1), (10240, 10), (10241, 10), (8000, 2600)]);
    } else {
        sizes.extend([(65535, 1), (65536, 2), (70000, 2)]);
    }
    for (h, n) in sizes {
        for uni in [false, true] {
            for variant in 0..3 {
                let cfg = if variant == 0 { base } else { *all.choose(&mut rng).unwrap() };
                let mut hay = word(&mut rng, h, uni);
                if uni {
                    hay[0] = 'ä';
                }
                let hn: Vec<char> = hay.iter().map(|&c| norm_char(c, cfg)).collect();
                // needle: a subsequence spread over the haystack (variant 0/1) or a contiguous chunk (variant 2)
                let needle: Vec<char> = if variant == 2 {
                    let a = rng.gen_range(0..=h - n);
                    hn[a..a + n].to_vec()
                } else {
                    let mut pos: Vec<usize> = rand::seq::index::sample(&mut rng, h, n).into_vec();
                    pos.sort();
                    pos.iter().map(|&i| hn[i]).collect()
                };
                f(Input { fam: "L", cfg, hay, needle });
            }
        }
    }
    // one gap around the u16 range between two matched characters: the per-character penalty saturates the
    // running score at zero however long the gap is (no arithmetic on the gap length may wrap)
    let mut gaps = vec![65_535usize, 65_536, 65_537, 65_600];
    if thorough {
        gaps.extend([65_534, 65_538, 66_000, 70_000, 131_073]);
    }
    for gap in gaps {
        for uni in [false, true] {
            let fill = if uni { 'ä' } else { 'x' };
            let mut hay: Vec<char> = "foo".chars().collect();
            hay.extend(std::iter::repeat(fill).take(gap));
            hay.extend("bar".chars());
            f(Input { fam: "L", cfg: base, hay: hay.clone(), needle: "foobar".chars().collect() });
            hay.extend(std::iter::repeat('_').take(40));
            hay.extend("baz".chars());
            f(Input { fam: "L", cfg: Cfg { ic: false, nz: false, paths: true }, hay, needle: "fobz".chars().collect() });
        }
    }
}

/// Family W: wide match windows (2 000 - 11 000 characters) with short needles, built so that the
/// forward-greedy alignment is far from optimal: the matrix path must still be taken and must still equal
/// the full recurrence (C04), a silent fallback to the greedy algorithm shows as a lower score.
pub fn family_w(thorough: bool, seed: u64, f: &mut dyn FnMut(Input)) {
    let mut rng = StdRng::seed_from_u64(seed ^ 0x57);
    let all = cfgs();
    let mut lens = vec![2049usize, 2050, 2500, 4000, 8000, 8700];
    if thorough {
        lens.extend([2047, 2048, 3000, 5000, 6000, 7000, 8500, 10000, 11000, 12000, 20000, 33000]);
    }
    for h in lens {
        for uni in [false, true] {
            for k in 0..(if thorough { 4 } else { 2 }) {
                let cfg = if k == 0 { Cfg { ic: true, nz: true, paths: false } } else { *all.choose(&mut rng).unwrap() };
                let nl = rng.gen_range(2..=3);
                let needle: Vec<char> = "abc".chars().take(nl).collect();
                let filler: Vec<char> = if uni { "xyz_ä".chars().collect() } else { "xyz_-".chars().collect() };
                let mut hay: Vec<char> = (0..h).map(|_| *filler.choose(&mut rng).unwrap()).collect();
                // a scattered (bad) occurrence near the start ...
                let mut p = 0;
                for &c in &needle {
                    hay[p] = c;
                    p += rng.gen_range(2..40);
                }
                // ... and a contiguous word-boundary occurrence at the very end
                let e = h - nl - 1;
                hay[e] = ' ';
                for (j, &c) in needle.iter().enumerate() {
                    hay[e + 1 + j] = if j == nl - 1 && cfg.ic && rng.gen_bool(0.5) { c.to_ascii_uppercase() } else { c };
                }
                f(Input { fam: "W", cfg, hay, needle });
            }
        }
    }
}

pub struct Plan {
    pub tier: String,
    pub seed: u64,
    pub universe: Vec<char>,
    pub only: Option<String>,
}

pub fn generate(plan: &Plan, sink: &mut dyn FnMut(Input)) {
    let thorough = plan.tier == "thorough";
    let want = |f: &str| plan.only.as_deref().map_or(true, |o| o.contains(f));
    if want("L") {
        family_l(thorough, plan.seed, sink);
    }
    if want("W") {
        family_w(thorough, plan.seed, sink);
    }
    if want("E") {
        let a1: Vec<char> = "abA-/ 1".chars().collect();
        let a2: Vec<char> = "aäÄς /".chars().collect();
        let a3: Vec<char> = "aB_: ".chars().collect();
        // the only two non-ASCII characters that case folding sends to ASCII letters (long s, Kelvin sign)
        let a4: Vec<char> = "sS\u{17f}kK\u{212a} ".chars().collect();
        // camelCase material: ties between extending a run and arriving out of a gap where the two options carry
        // different consecutive bonuses need 6-7 characters and a needle of 4
        let a6: Vec<char> = "aAbB-".chars().collect();
        if thorough {
            family_e(&a1, 6, 4, 2, 40, plan.seed, sink);
            family_e(&a2, 5, 3, 2, 8, plan.seed, sink);
            family_e(&a3, 6, 3, 2, 8, plan.seed, sink);
            family_e(&a4, 5, 4, 2, 8, plan.seed, sink);
            family_e(&a6, 7, 4, 0, 100, plan.seed, sink);
        } else {
            family_e(&a1, 5, 3, 2, 60, plan.seed, sink);
            family_e(&a2, 4, 3, 2, 12, plan.seed, sink);
            family_e(&a3, 5, 3, 1, 40, plan.seed, sink);
            family_e(&a4, 4, 3, 1, 6, plan.seed, sink);
            family_e(&a6, 7, 4, 0, 400, plan.seed, sink);
        }
    }
    if want("R") {
        let n = if thorough { 400_000 } else { 20_000 };
        family_r(&plan.universe, n, if thorough { 300 } else { 120 }, plan.seed, sink);
    }
}

pub fn run(plan: Plan, shards: usize, outdir: &str) {
    std::fs::create_dir_all(outdir).unwrap();
    // collect inputs (cheap) then execute shards in parallel threads
    let mut inputs: Vec<Input> = Vec::new();
    generate(&plan, &mut |i| inputs.push(i));
    let total = inputs.len();
    let inputs = std::sync::Arc::new(inputs);
    // silence panic messages of the code under test (they are recorded as data)
    std::panic::set_hook(Box::new(|_| {}));
    let mut handles = Vec::new();
    for k in 0..shards {
        let inputs = inputs.clone();
        let path = format!("{}/shard-{:02}.ndjson", outdir, k);
        let seed = plan.seed;
        handles.push(std::thread::spawn(move || {
            let mut f = std::io::BufWriter::new(std::fs::File::create(&path).unwrap());
            let mut sess = Session::new();
            let mut rng = StdRng::seed_from_u64(seed ^ (k as u64) << 32);
            let mut n = 0u64;
            for (i, inp) in inputs.iter().enumerate() {
                if i % shards != k {
                    continue;
                }
                // prior content of the indices vector: 0-3 sentinels
                let pl = rng.gen_range(0..4);
                let pre: Vec<u32> = (0..pl).map(|_| rng.gen_range(0..1000) + 4_000_000).collect();
                let rec = sess.run(i as u64 + 1, inp, &pre);
                writeln!(f, "{}", rec).unwrap();
                n += 1;
            }
            f.flush().unwrap();
            (n, sess.calls, sess.panics)
        }));
    }
    let mut recs = 0;
    let mut calls = 0;
    let mut panics = 0;
    for h in handles {
        let (n, c, p) = h.join().unwrap();
        recs += n;
        calls += c;
        panics += p;
    }
    let _ = std::panic::take_hook();
    println!("{{\"records\":{},\"inputs\":{},\"calls\":{},\"panics\":{},\"shards\":{}}}", recs, total, calls, panics, shards);
}

/// `matcher-one`: re-executes the input of one recorded call record (replay of a violation).
pub fn run_one(input: &str, out: &str) {
    let v: serde_json::Value = serde_json::from_str(&std::fs::read_to_string(input).unwrap()).unwrap();
    let r = if v.get("record").is_some() { &v["record"] } else { &v };
    let cps = |k: &str| -> Vec<char> {
        r[k].as_array().unwrap().iter().filter_map(|x| x.as_u64()).filter_map(|c| char::from_u32(c as u32)).collect()
    };
    let inp = Input {
        fam: "X",
        cfg: Cfg { ic: r["ic"].as_bool().unwrap(), nz: r["nz"].as_bool().unwrap(), paths: r["paths"].as_bool().unwrap() },
        hay: cps("hay"),
        needle: cps("needle"),
    };
    let pre: Vec<u32> = r["pre"].as_array().unwrap().iter().map(|x| x.as_u64().unwrap() as u32).collect();
    std::panic::set_hook(Box::new(|_| {}));
    let mut sess = Session::new();
    let rec = sess.run(r["id"].as_u64().unwrap_or(1), &inp, &pre);
    let _ = std::panic::take_hook();
    std::fs::write(out, rec + "\n").unwrap();
    println!("{{\"records\":1}}");
}
