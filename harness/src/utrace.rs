//! `utf32-trace`: conversion records for spec/Utf32Trace.tla (C17).
use nucleo_matcher::{Utf32Str, Utf32String};
use rand::rngs::StdRng;
use rand::seq::SliceRandom;
use rand::{Rng, SeedableRng};
use std::borrow::Cow;
use std::fmt::Write as _;
use std::io::Write as _;

const ALPHA: [u32; 33] = [
    0x61, 0x62, 0x5A, 0x20, 0x0D, 0x0A, 0x09, 0x301, 0x308, 0xFE0F, 0x1F3FB, 0x93C, 0x94D, 0x200D, 0x903, 0xE33, 0x600,
    0xD4E, 0x1100, 0x1161, 0x11A8, 0xAC00, 0xAC01, 0x1F1E9, 0x1F1EA, 0x1F600, 0x2764, 0x1F468, 0x915, 0x937, 0xE4, 0x307B,
    0x2028,
];

fn cps<I: IntoIterator<Item = char>>(out: &mut String, it: I) {
    out.push('[');
    let mut first = true;
    for c in it {
        if !first {
            out.push(',');
        }
        first = false;
        let _ = write!(out, "{}", c as u32);
    }
    out.push(']');
}

fn ctor(out: &mut String, name: &str, s: Utf32Str<'_>) {
    let _ = write!(out, "{{\"name\":\"{}\",\"repr\":\"{}\",\"chars\":", name, if s.is_ascii() { "A" } else { "U" });
    // content through the raw representation, not through the accessors under test
    match s {
        Utf32Str::Ascii(b) => cps(out, b.iter().map(|&b| b as char)),
        Utf32Str::Unicode(c) => cps(out, c.iter().copied()),
    }
    out.push('}');
}

pub fn record(id: u64, s: &str) -> String {
    let res = std::panic::catch_unwind(|| {
        let mut out = String::new();
        let _ = write!(out, "{{\"id\":{},\"s\":", id);
        cps(&mut out, s.chars());
        out.push_str(",\"panic\":false,\"ctors\":[");
        let mut buf = Vec::new();
        ctor(&mut out, "str_new", Utf32Str::new(s, &mut buf));
        out.push(',');
        let a = Utf32String::from(s);
        ctor(&mut out, "from_str", a.slice(..));
        out.push(',');
        let b = Utf32String::from(s.to_owned());
        ctor(&mut out, "from_string", b.slice(..));
        out.push(',');
        let c = Utf32String::from(s.to_owned().into_boxed_str());
        ctor(&mut out, "from_box", c.slice(..));
        out.push(',');
        let d = Utf32String::from(Cow::Borrowed(s));
        ctor(&mut out, "from_cow_borrowed", d.slice(..));
        out.push(',');
        let e = Utf32String::from(Cow::<str>::Owned(s.to_owned()));
        ctor(&mut out, "from_cow_owned", e.slice(..));
        out.push(']');
        let v = a.slice(..);
        let n = v.len();
        let _ = write!(out, ",\"len\":{},\"get\":", n);
        cps(&mut out, (0..n as u32).map(|i| v.get(i)));
        out.push_str(",\"fwd\":");
        cps(&mut out, v.chars());
        out.push_str(",\"rev\":");
        cps(&mut out, v.chars().rev());
        out.push_str(",\"display\":");
        cps(&mut out, format!("{}", a).chars());
        // the iterator through its other entry points: stepping by more than one from either end, counting,
        // last, and alternating ends
        out.push_str(",\"nth\":");
        cps(&mut out, (0..n).map(|k| v.chars().nth(k).unwrap_or('\u{10FFFF}')));
        out.push_str(",\"nth_back\":");
        cps(&mut out, (0..n).map(|k| v.chars().nth_back(k).unwrap_or('\u{10FFFF}')));
        out.push_str(",\"rev_skip\":");
        cps(&mut out, (0..n).map(|k| v.chars().rev().skip(k).next().unwrap_or('\u{10FFFF}')));
        out.push_str(",\"alt\":");
        {
            let mut it = v.chars();
            let mut alt = Vec::new();
            let mut front = true;
            loop {
                let x = if front { it.next() } else { it.next_back() };
                match x {
                    Some(c) => alt.push(c),
                    None => break,
                }
                front = !front;
            }
            cps(&mut out, alt);
        }
        let _ = write!(
            out,
            ",\"count\":{},\"last\":{},\"past_end\":{}",
            v.chars().count(),
            v.chars().last().map_or(-1, |c| c as i64),
            v.chars().nth(n).is_none() && v.chars().nth_back(n).is_none()
        );
        out.push_str(",\"slices\":[");
        let mut first = true;
        let mut sl = |out: &mut String, form: &str, x: usize, y: usize, s: Utf32Str<'_>| {
            if !first {
                out.push(',');
            }
            first = false;
            let _ = write!(out, "{{\"form\":\"{}\",\"a\":{},\"b\":{},\"repr\":\"{}\",\"chars\":", form, x, y, if s.is_ascii() { "A" } else { "U" });
            cps(out, s.chars());
            out.push('}');
        };
        for x in 0..=n {
            for y in x..=n {
                sl(&mut out, "a..b", x, y, v.slice(x..y));
                sl(&mut out, "u32_a..b", x, y, v.slice_u32(x as u32..y as u32));
                sl(&mut out, "string_a..b", x, y, a.slice(x..y));
                sl(&mut out, "string_u32_a..b", x, y, a.slice_u32(x as u32..y as u32));
                // explicit bound pairs: the only way to get an excluded start bound
                {
                    use std::ops::Bound::*;
                    sl(&mut out, "(Included a, Excluded b)", x, y, v.slice((Included(x), Excluded(y))));
                    sl(&mut out, "string_(Included a, Excluded b)", x, y, a.slice((Included(x), Excluded(y))));
                    if x >= 1 {
                        sl(&mut out, "(Excluded a-1, Excluded b)", x, y, v.slice((Excluded(x - 1), Excluded(y))));
                        sl(&mut out, "u32_(Excluded a-1, Excluded b)", x, y, v.slice_u32((Excluded(x as u32 - 1), Excluded(y as u32))));
                        sl(&mut out, "string_(Excluded a-1, Excluded b)", x, y, a.slice((Excluded(x - 1), Excluded(y))));
                        sl(&mut out, "string_u32_(Excluded a-1, Excluded b)", x, y, a.slice_u32((Excluded(x as u32 - 1), Excluded(y as u32))));
                        if y == n {
                            sl(&mut out, "(Excluded a-1, Unbounded)", x, n, v.slice((Excluded(x - 1), Unbounded)));
                            sl(&mut out, "string_u32_(Excluded a-1, Unbounded)", x, n, a.slice_u32((Excluded(x as u32 - 1), Unbounded)));
                        }
                        if y > x {
                            sl(&mut out, "(Excluded a-1, Included b-1)", x, y, v.slice((Excluded(x - 1), Included(y - 1))));
                        }
                    }
                }
                if y > x {
                    sl(&mut out, "a..=b", x, y, v.slice(x..=y - 1));
                    sl(&mut out, "u32_a..=b", x, y, v.slice_u32(x as u32..=y as u32 - 1));
                    sl(&mut out, "string_a..=b", x, y, a.slice(x..=y - 1));
                    sl(&mut out, "string_u32_a..=b", x, y, a.slice_u32(x as u32..=y as u32 - 1));
                }
            }
            sl(&mut out, "a..", x, n, v.slice(x..));
            sl(&mut out, "..b", 0, x, v.slice(..x));
            sl(&mut out, "u32_a..", x, n, v.slice_u32(x as u32..));
            sl(&mut out, "u32_..b", 0, x, v.slice_u32(..x as u32));
            sl(&mut out, "string_a..", x, n, a.slice(x..));
            sl(&mut out, "string_u32_..b", 0, x, a.slice_u32(..x as u32));
        }
        sl(&mut out, "..", 0, n, v.slice(..));
        out.push_str("]}");
        out
    });
    match res {
        Ok(s) => s,
        Err(_) => {
            let mut out = String::new();
            let _ = write!(out, "{{\"id\":{},\"s\":", id);
            cps(&mut out, s.chars());
            out.push_str(",\"panic\":true,\"ctors\":[],\"len\":0,\"get\":[],\"fwd\":[],\"rev\":[],\"display\":[],\"nth\":[],\"nth_back\":[],\"rev_skip\":[],\"alt\":[],\"count\":0,\"last\":-1,\"past_end\":true,\"slices\":[]}");
            out
        }
    }
}

pub fn run(tier: &str, seed: u64, shards: usize, outdir: &str) {
    std::fs::create_dir_all(outdir).unwrap();
    let thorough = tier == "thorough";
    let alpha: Vec<char> = ALPHA.iter().map(|&c| char::from_u32(c).unwrap()).collect();
    std::panic::set_hook(Box::new(|_| {}));
    let mut files: Vec<std::io::BufWriter<std::fs::File>> = (0..shards)
        .map(|k| std::io::BufWriter::new(std::fs::File::create(format!("{}/shard-{:02}.ndjson", outdir, k)).unwrap()))
        .collect();
    let mut id = 0u64;
    let k = alpha.len() as u64;
    let full = if thorough { 3 } else { 2 };
    let strided = if thorough { 4 } else { 3 };
    let stride: u64 = if thorough { 12 } else { 4 };
    for len in 0..=strided {
        for code in 0..k.pow(len as u32) {
            if len > full && (code.wrapping_mul(0x9E3779B97F4A7C15).wrapping_add(seed) >> 17) % stride != 0 {
                continue;
            }
            let mut x = code;
            let mut t = String::new();
            for _ in 0..len {
                t.push(alpha[(x % k) as usize]);
                x /= k;
            }
            id += 1;
            writeln!(files[(id as usize) % shards], "{}", record(id, &t)).unwrap();
        }
    }
    // every arrangement of CR / LF with ASCII, precomposed Latin-1 (below U+0300) and one combining mark
    let small: Vec<char> = ['a', '\u{e4}', '\r', '\n', '\u{301}', ' '].to_vec();
    let ks = small.len() as u64;
    for len in 3..=(if thorough { 6 } else { 5 }) {
        for code in 0..ks.pow(len) {
            let mut x = code;
            let mut t = String::new();
            for _ in 0..len {
                t.push(small[(x % ks) as usize]);
                x /= ks;
            }
            id += 1;
            writeln!(files[(id as usize) % shards], "{}", record(id, &t)).unwrap();
        }
    }
    let mut rng = StdRng::seed_from_u64(seed ^ 0x55);
    let nrand = if thorough { 60_000 } else { 6_000 };
    for _ in 0..nrand {
        let n = rng.gen_range(4..=10);
        let ascii_only = rng.gen_bool(0.3);
        let t: String = (0..n)
            .map(|_| loop {
                let c = *alpha.choose(&mut rng).unwrap();
                if !ascii_only || c.is_ascii() {
                    break c;
                }
            })
            .collect();
        id += 1;
        writeln!(files[(id as usize) % shards], "{}", record(id, &t)).unwrap();
    }
    for f in files.iter_mut() {
        f.flush().unwrap();
    }
    let _ = std::panic::take_hook();
    println!("{{\"records\":{},\"shards\":{}}}", id, shards);
}
