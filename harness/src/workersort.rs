//! `worker-order`: the order of `Snapshot::matches` produced by the real worker (its own comparison closure
//! handed to the parallel sort) on item sets with many score / length ties, for every thread count, for
//! spec/WorkerOrder.tla (C18: "the resulting match order is identical for every number of worker threads").
use nucleo::pattern::{CaseMatching, Normalization};
use nucleo::{Config, Nucleo};
use nucleo_matcher::pattern::Pattern;
use nucleo_matcher::{Matcher, Utf32String};
use rand::rngs::StdRng;
use rand::{Rng, SeedableRng};
use std::fmt::Write as _;
use std::io::Write as _;
use std::sync::Arc;

const PATS: [&str; 9] = ["a", "!a", "!a !b", "", "ab", "b$", "!x", "^a !b", "a b"];

fn gen_items(n: usize, rng: &mut StdRng) -> Vec<String> {
    let alpha = ['a', 'b', 'x', '_', 'A'];
    (0..n)
        .map(|_| {
            let l = rng.gen_range(0..=6);
            (0..l).map(|_| alpha[rng.gen_range(0..alpha.len())]).collect()
        })
        .collect()
}

fn one(id: u64, items: &[String], pat: &str, threads: usize) -> String {
    let mut out = String::new();
    let _ = write!(out, "{{\"id\":{},\"threads\":{},\"n\":{},\"pattern\":{:?},\"items\":[", id, threads, items.len(), pat);
    let mut m = Matcher::new(Config::DEFAULT);
    let p = Pattern::parse(pat, CaseMatching::Smart, Normalization::Smart);
    for (k, it) in items.iter().enumerate() {
        if k > 0 {
            out.push(',');
        }
        let h = Utf32String::from(it.as_str());
        let s = p.score(h.slice(..), &mut m).map_or(-1, |s| s as i64);
        let _ = write!(out, "[{},{}]", h.len(), s);
    }
    out.push(']');
    let res = std::panic::catch_unwind(|| {
        let mut nucleo: Nucleo<String> = Nucleo::new(Config::DEFAULT, Arc::new(|| {}), Some(threads), 1);
        let inj = nucleo.injector();
        for it in items {
            inj.push(it.clone(), |s, cols| cols[0] = s.as_str().into());
        }
        nucleo.pattern.reparse(0, pat, CaseMatching::Smart, Normalization::Smart, false);
        let mut guard = 0;
        loop {
            let st = nucleo.tick(50);
            guard += 1;
            if !st.running || guard > 2000 {
                break;
            }
        }
        let snap = nucleo.snapshot();
        let ms: Vec<(i64, u32)> = snap.matches().iter().map(|m| (if m.idx == u32::MAX { -1 } else { m.idx as i64 }, m.score)).collect();
        (snap.item_count(), ms, guard > 2000)
    });
    match res {
        Ok((count, ms, stuck)) => {
            let _ = write!(out, ",\"panic\":false,\"stuck\":{},\"count\":{},\"matches\":[", stuck, count);
            for (k, (i, s)) in ms.iter().enumerate() {
                if k > 0 {
                    out.push(',');
                }
                let _ = write!(out, "[{},{}]", i, s);
            }
            out.push_str("]}");
        }
        Err(_) => out.push_str(",\"panic\":true,\"stuck\":false,\"count\":0,\"matches\":[]}"),
    }
    out
}

/// Fast typing over a big item set: every edit cancels the run in flight (often in the middle of the parallel sort);
/// every snapshot the UI gets to see is recorded and must be the complete, uniquely ordered result of its pattern.
fn stress(id0: &mut u64, items: &[String], threads: usize, rounds: usize, rng: &mut StdRng, emit: &mut dyn FnMut(u64, String)) {
    let pats = ["a", "ab", "b", "ba", "!x", "a b", "x"];
    let parsed: Vec<Pattern> = pats.iter().map(|p| Pattern::parse(p, CaseMatching::Smart, Normalization::Smart)).collect();
    let keys: Vec<String> = parsed.iter().map(|p| format!("{:?}", p.atoms)).collect();
    let mut m = Matcher::new(Config::DEFAULT);
    let hays: Vec<Utf32String> = items.iter().map(|s| Utf32String::from(s.as_str())).collect();
    let tables: Vec<Vec<i64>> = parsed.iter().map(|p| hays.iter().map(|h| p.score(h.slice(..), &mut m).map_or(-1, |s| s as i64)).collect()).collect();
    let mut nucleo: Nucleo<String> = Nucleo::new(Config::DEFAULT, Arc::new(|| {}), Some(threads), 1);
    let inj = nucleo.injector();
    inj.extend(items.iter().cloned().collect::<Vec<_>>().into_iter(), |s, cols| cols[0] = s.as_str().into());
    let mut capture = |nucleo: &Nucleo<String>, emit: &mut dyn FnMut(u64, String), id0: &mut u64| {
        let snap = nucleo.snapshot();
        let key = format!("{:?}", snap.pattern().column_pattern(0).atoms);
        let Some(pi) = keys.iter().position(|k| *k == key) else { return };
        if pats[pi].is_empty() {
            return;
        }
        *id0 += 1;
        let mut out = String::new();
        let _ = write!(out, "{{\"id\":{},\"threads\":{},\"n\":{},\"pattern\":{:?},\"items\":[", *id0, threads, items.len(), pats[pi]);
        for (k, h) in hays.iter().enumerate() {
            if k > 0 {
                out.push(',');
            }
            let _ = write!(out, "[{},{}]", h.len(), tables[pi][k]);
        }
        let _ = write!(out, "],\"panic\":false,\"stuck\":false,\"count\":{},\"matches\":[", snap.item_count());
        for (k, mm) in snap.matches().iter().enumerate() {
            if k > 0 {
                out.push(',');
            }
            let _ = write!(out, "[{},{}]", if mm.idx == u32::MAX { -1 } else { mm.idx as i64 }, mm.score);
        }
        out.push_str("]}");
        emit(*id0, out);
    };
    for _ in 0..rounds {
        let p = rng.gen_range(0..pats.len());
        nucleo.pattern.reparse(0, pats[p], CaseMatching::Smart, Normalization::Smart, false);
        let st = nucleo.tick(0);
        if st.changed {
            capture(&nucleo, emit, id0);
        }
        // let the run get somewhere (scan, rescoring or sort) before the next edit cancels it
        let spin = rng.gen_range(0..3000u32);
        for _ in 0..spin {
            std::hint::spin_loop();
        }
        if rng.gen_bool(0.7) {
            // sometimes long enough for the run to finish, mostly long enough to be in its sort when the next edit comes
            std::thread::sleep(std::time::Duration::from_micros(rng.gen_range(50..6000)));
            let st = nucleo.tick(0);
            if st.changed {
                capture(&nucleo, emit, id0);
            }
        }
    }
    let mut guard = 0;
    loop {
        let st = nucleo.tick(20);
        if st.changed {
            capture(&nucleo, emit, id0);
        }
        guard += 1;
        if !st.running || guard > 2000 {
            break;
        }
    }
}

/// 40 items of increasing length are matched; a 41st, shorter one is pushed by another thread that is held inside its
/// fill callback while a run scans past its (reserved, unpublished) slot, and released afterwards.
fn late_push(id: u64, pat: &str, threads: usize) -> String {
    let mut items: Vec<String> = (0..40).map(|k| format!("a{}", "b".repeat(k + 2))).collect();
    items.push("ab".to_string());
    let mut out = String::new();
    let _ = write!(out, "{{\"id\":{},\"threads\":{},\"n\":{},\"pattern\":{:?},\"items\":[", id, threads, items.len(), pat);
    let mut m = Matcher::new(Config::DEFAULT);
    let p = Pattern::parse(pat, CaseMatching::Smart, Normalization::Smart);
    for (k, it) in items.iter().enumerate() {
        if k > 0 {
            out.push(',');
        }
        let h = Utf32String::from(it.as_str());
        let _ = write!(out, "[{},{}]", h.len(), p.score(h.slice(..), &mut m).map_or(-1, |s| s as i64));
    }
    out.push(']');
    let res = std::panic::catch_unwind(|| {
        let mut nucleo: Nucleo<String> = Nucleo::new(Config::DEFAULT, Arc::new(|| {}), Some(threads), 1);
        let inj = nucleo.injector();
        for it in &items[..40] {
            inj.push(it.clone(), |s, cols| cols[0] = s.as_str().into());
        }
        nucleo.pattern.reparse(0, pat, CaseMatching::Smart, Normalization::Smart, false);
        let (entered_tx, entered_rx) = std::sync::mpsc::channel::<()>();
        let (go_tx, go_rx) = std::sync::mpsc::channel::<()>();
        let inj2 = nucleo.injector();
        let late = items[40].clone();
        let h = std::thread::spawn(move || {
            inj2.push(late, move |s, cols| {
                let _ = entered_tx.send(());
                let _ = go_rx.recv_timeout(std::time::Duration::from_secs(5));
                cols[0] = s.as_str().into();
            });
        });
        let _ = entered_rx.recv_timeout(std::time::Duration::from_secs(5));
        // runs that see the slot reserved but not published
        for _ in 0..200 {
            if !nucleo.tick(20).running {
                break;
            }
        }
        let _ = go_tx.send(());
        let _ = h.join();
        let mut guard = 0;
        loop {
            let st = nucleo.tick(20);
            guard += 1;
            if !st.running || guard > 2000 {
                break;
            }
        }
        let snap = nucleo.snapshot();
        let ms: Vec<(i64, u32)> = snap.matches().iter().map(|m| (if m.idx == u32::MAX { -1 } else { m.idx as i64 }, m.score)).collect();
        (snap.item_count(), ms, guard > 2000)
    });
    match res {
        Ok((count, ms, stuck)) => {
            let _ = write!(out, ",\"panic\":false,\"stuck\":{},\"count\":{},\"matches\":[", stuck, count);
            for (k, (i, s)) in ms.iter().enumerate() {
                if k > 0 {
                    out.push(',');
                }
                let _ = write!(out, "[{},{}]", i, s);
            }
            out.push_str("]}");
        }
        Err(_) => out.push_str(",\"panic\":true,\"stuck\":false,\"count\":0,\"matches\":[]}"),
    }
    out
}

pub fn run(tier: &str, seed: u64, shards: usize, outdir: &str, stress_only: bool) {
    std::fs::create_dir_all(outdir).unwrap();
    let thorough = tier == "thorough";
    std::panic::set_hook(Box::new(|_| {}));
    let mut files: Vec<std::io::BufWriter<std::fs::File>> = (0..shards)
        .map(|k| std::io::BufWriter::new(std::fs::File::create(format!("{}/worker-{:02}.ndjson", outdir, k)).unwrap()))
        .collect();
    let mut rng = StdRng::seed_from_u64(seed ^ 0x776f);
    let mut sizes = vec![0usize, 1, 2, 3, 20, 21, 22, 50, 64, 200, 1000];
    if thorough {
        sizes.extend([5, 19, 100, 500, 3000, 10000]);
    }
    let mut id = 0u64;
    for n in if stress_only { Vec::new() } else { sizes } {
        let sets = if n <= 64 { 3 } else { 1 };
        for _ in 0..sets {
            let items = gen_items(n, &mut rng);
            for pat in PATS {
                for threads in [1usize, 2, 3, 8] {
                    id += 1;
                    // marker for the driver: a panic on a pool thread makes rayon abort the whole process
                    let _ = std::fs::write(format!("{}/current.json", outdir), format!("{{\"id\":{},\"what\":\"complete run\",\"pattern\":{:?},\"n\":{},\"threads\":{}}}", id, pat, items.len(), threads));
                    let rec = one(id, &items, pat, threads);
                    let f = &mut files[(id as usize) % shards];
                    writeln!(f, "{}", rec).unwrap();
                    f.flush().unwrap();
                }
            }
        }
    }
    // fast typing over a big item set: snapshots taken while runs are being cancelled
    let big = gen_items(if thorough { 60000 } else { 20000 }, &mut rng);
    for threads in [2usize, 4, 8] {
        let _ = std::fs::write(format!("{}/current.json", outdir), format!("{{\"id\":{},\"what\":\"fast typing\",\"pattern\":\"(several)\",\"n\":{},\"threads\":{}}}", id + 1, big.len(), threads));
        let mut emit = |rid: u64, rec: String| {
            let f = &mut files[(rid as usize) % shards];
            writeln!(f, "{}", rec).unwrap();
            f.flush().unwrap();
        };
        stress(&mut id, &big, threads, if thorough { 120 } else { 30 }, &mut rng, &mut emit);
    }
    // a push that is in flight while a run scans, completes afterwards and is picked up by a run with nothing else
    // new: the late item has to be sorted into its place (it is the shortest, so it belongs first)
    if !stress_only {
        for threads in [1usize, 2, 4] {
            for pat in ["a", "!x"] {
                id += 1;
                let _ = std::fs::write(format!("{}/current.json", outdir), format!("{{\"id\":{},\"what\":\"late push\",\"pattern\":{:?},\"n\":41,\"threads\":{}}}", id, pat, threads));
                let rec = late_push(id, pat, threads);
                let f = &mut files[(id as usize) % shards];
                writeln!(f, "{}", rec).unwrap();
                f.flush().unwrap();
            }
        }
    }
    let _ = std::fs::remove_file(format!("{}/current.json", outdir));
    for f in files.iter_mut() {
        f.flush().unwrap();
    }
    let _ = std::panic::take_hook();
    println!("{{\"records\":{},\"shards\":{}}}", id, shards);
}
