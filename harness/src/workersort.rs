//! `worker-order`: the order of `Snapshot::matches` produced by the real worker (its own comparison closure
//! handed to the parallel sort) on item sets with many score / length ties, for every thread count, for
//! spec/WorkerOrder.tla (C18: "the resulting match order is identical for every number of worker threads").
use nucleo::pattern::{CaseMatching, Normalization};
use nucleo::{Config, Nucleo};
use nucleo_matcher::pattern::Pattern;
use nucleo_matcher::{Matcher, Utf32String};
use rand::rngs::StdRng;
use rand::{Rng, SeedableRng};
use std::fmt::Write as _;
use std::io::Write as _;
use std::sync::Arc;

const PATS: [&str; 9] = ["a", "!a", "!a !b", "", "ab", "b$", "!x", "^a !b", "a b"];

fn gen_items(n: usize, rng: &mut StdRng) -> Vec<String> {
    let alpha = ['a', 'b', 'x', '_', 'A'];
    (0..n)
        .map(|_| {
            let l = rng.gen_range(0..=6);
            (0..l).map(|_| alpha[rng.gen_range(0..alpha.len())]).collect()
        })
        .collect()
}

fn one(id: u64, items: &[String], pat: &str, threads: usize) -> String {
    let mut out = String::new();
    let _ = write!(out, "{{\"id\":{},\"threads\":{},\"n\":{},\"pattern\":{:?},\"items\":[", id, threads, items.len(), pat);
    let mut m = Matcher::new(Config::DEFAULT);
    let p = Pattern::parse(pat, CaseMatching::Smart, Normalization::Smart);
    for (k, it) in items.iter().enumerate() {
        if k > 0 {
            out.push(',');
        }
        let h = Utf32String::from(it.as_str());
        let s = p.score(h.slice(..), &mut m).map_or(-1, |s| s as i64);
        let _ = write!(out, "[{},{}]", h.len(), s);
    }
    out.push(']');
    let res = std::panic::catch_unwind(|| {
        let mut nucleo: Nucleo<String> = Nucleo::new(Config::DEFAULT, Arc::new(|| {}), Some(threads), 1);
        let inj = nucleo.injector();
        for it in items {
            inj.push(it.clone(), |s, cols| cols[0] = s.as_str().into());
        }
        nucleo.pattern.reparse(0, pat, CaseMatching::Smart, Normalization::Smart, false);
        let mut guard = 0;
        loop {
            let st = nucleo.tick(50);
            guard += 1;
            if !st.running || guard > 2000 {
                break;
            }
        }
        let snap = nucleo.snapshot();
        let ms: Vec<(i64, u32)> = snap.matches().iter().map(|m| (if m.idx == u32::MAX { -1 } else { m.idx as i64 }, m.score)).collect();
        (snap.item_count(), ms, guard > 2000)
    });
    match res {
        Ok((count, ms, stuck)) => {
            let _ = write!(out, ",\"panic\":false,\"stuck\":{},\"count\":{},\"matches\":[", stuck, count);
            for (k, (i, s)) in ms.iter().enumerate() {
                if k > 0 {
                    out.push(',');
                }
                let _ = write!(out, "[{},{}]", i, s);
            }
            out.push_str("]}");
        }
        Err(_) => out.push_str(",\"panic\":true,\"stuck\":false,\"count\":0,\"matches\":[]}"),
    }
    out
}

pub fn run(tier: &str, seed: u64, shards: usize, outdir: &str) {
    std::fs::create_dir_all(outdir).unwrap();
    let thorough = tier == "thorough";
    std::panic::set_hook(Box::new(|_| {}));
    let mut files: Vec<std::io::BufWriter<std::fs::File>> = (0..shards)
        .map(|k| std::io::BufWriter::new(std::fs::File::create(format!("{}/worker-{:02}.ndjson", outdir, k)).unwrap()))
        .collect();
    let mut rng = StdRng::seed_from_u64(seed ^ 0x776f);
    let mut sizes = vec![0usize, 1, 2, 3, 20, 21, 22, 50, 64, 200, 1000];
    if thorough {
        sizes.extend([5, 19, 100, 500, 3000, 10000]);
    }
    let mut id = 0u64;
    for n in sizes {
        let sets = if n <= 64 { 3 } else { 1 };
        for _ in 0..sets {
            let items = gen_items(n, &mut rng);
            for pat in PATS {
                for threads in [1usize, 2, 3, 8] {
                    id += 1;
                    writeln!(files[(id as usize) % shards], "{}", one(id, &items, pat, threads)).unwrap();
                }
            }
        }
    }
    for f in files.iter_mut() {
        f.flush().unwrap();
    }
    let _ = std::panic::take_hook();
    println!("{{\"records\":{},\"shards\":{}}}", id, shards);
}
