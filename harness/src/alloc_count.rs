//! A counting global allocator: net bytes allocated by the calling thread, for the memory-balance records of
//! `boxcar-sched` (a vector of items without drop glue still owns its matcher columns).
use std::alloc::{GlobalAlloc, Layout, System};
use std::cell::Cell;

pub struct Counting;
// net bytes allocated minus freed BY THE CURRENT THREAD (a process-wide count would see the tails of other threads)
thread_local! {
    static NET: Cell<i64> = const { Cell::new(0) };
}
fn add(d: i64) {
    let _ = NET.try_with(|c| c.set(c.get() + d));
}

unsafe impl GlobalAlloc for Counting {
    unsafe fn alloc(&self, l: Layout) -> *mut u8 {
        let p = System.alloc(l);
        if !p.is_null() {
            add(l.size() as i64);
        }
        p
    }
    unsafe fn dealloc(&self, p: *mut u8, l: Layout) {
        add(-(l.size() as i64));
        System.dealloc(p, l)
    }
    unsafe fn alloc_zeroed(&self, l: Layout) -> *mut u8 {
        let p = System.alloc_zeroed(l);
        if !p.is_null() {
            add(l.size() as i64);
        }
        p
    }
    unsafe fn realloc(&self, p: *mut u8, l: Layout, n: usize) -> *mut u8 {
        let q = System.realloc(p, l, n);
        if !q.is_null() {
            add(n as i64 - l.size() as i64);
        }
        q
    }
}

#[global_allocator]
static GLOBAL: Counting = Counting;

pub fn live() -> i64 {
    NET.with(|c| c.get())
}
