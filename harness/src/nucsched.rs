//! `nucleo-sched`: schedule exploration of the real `Nucleo` (UI thread, injector threads, worker pool)
//! under the controlled scheduler; one ndjson trace per run for spec/NucleoTrace.tla and spec/MemModel.tla
//! (C06, C07, C09, C11, C12, C13, C19, C20).
use crate::boxsched::render;
use crate::sched::{set_role, Policy, Sched, SinkRef};
use nucleo::pattern::{CaseMatching, MultiPattern, Normalization};
use nucleo::{Config, Injector, Matcher, Nucleo, Utf32String};
use rand::rngs::StdRng;
use rand::seq::SliceRandom;
use rand::{Rng, SeedableRng};
use std::collections::HashMap;
use std::fmt::Write as _;
use std::io::Write as _;
use std::sync::{Arc, Mutex};
use std::time::Duration;

pub static DROPS: Mutex<Vec<u64>> = Mutex::new(Vec::new());

/// What the panic hook needs to save the trace of the run in progress (a panic inside the worker pool makes
/// rayon abort the process; the partial trace plus an "abort" event is the recorded outcome).
struct Current {
    sched: Arc<Sched>,
    vec_addrs: Vec<(String, usize, usize, usize)>,
    named: Vec<(String, usize)>,
    path: String,
    run: u64,
}
static CURRENT: Mutex<Option<Current>> = Mutex::new(None);

fn install_crash_hook() {
    std::panic::set_hook(Box::new(|info| {
        let msg = info.to_string().replace('\n', " ");
        if let Ok(mut g) = CURRENT.try_lock() {
            if let Some(c) = g.take() {
                nucleo::verif::uninstall();
                let (log, _, _) = c.sched.finish();
                let mut lines = Vec::new();
                render(&log, &c.vec_addrs, &c.named, &mut lines);
                lines.push(format!("{{\"seq\":{},\"tid\":0,\"role\":\"main\",\"site\":\"abort\",\"run\":{},\"msg\":{}}}", log.len() + 1, c.run, serde_json::to_string(&msg).unwrap()));
                if let Ok(mut f) = std::fs::OpenOptions::new().append(true).create(true).open(&c.path) {
                    for l in lines {
                        let _ = writeln!(f, "{}", l);
                    }
                }
                println!("{{\"aborted_run\":{}}}", c.run);
                std::process::exit(3);
            }
        }
    }));
}

pub struct Payload(pub u64);
impl Drop for Payload {
    fn drop(&mut self) {
        DROPS.lock().unwrap().push(self.0);
    }
}

pub const TEXTS: [&str; 12] = ["foo", "foobar", "bar", "fo", "foo$b", "a b", "a\\", "xfoo", "Foo", "baz/foo", "f", "foo$"];
pub const TEXTS2: [&str; 4] = ["", "x", "foo", "zz"];
pub const PATTERNS: [&str; 16] = ["", "f", "fo", "foo", "foo$", "foo$b", "a\\", "a\\ b", "!f", "!fo", "^f", "'oo", "b", "fob", "ba", "bar"];

pub fn item_texts(id: u64, cols: u32) -> Vec<String> {
    let mut v = vec![TEXTS[(id % 1000) as usize % TEXTS.len()].to_string()];
    if cols > 1 {
        v.push(TEXTS2[((id % 1000) / 3) as usize % TEXTS2.len()].to_string());
    }
    v
}

fn fill(cols: u32) -> impl Fn(&Payload, &mut [Utf32String]) {
    move |p: &Payload, c: &mut [Utf32String]| {
        for (k, t) in item_texts(p.0, cols).iter().enumerate() {
            c[k] = Utf32String::from(t.as_str());
        }
    }
}

#[derive(Clone, Debug)]
pub enum UiOp {
    Reparse(usize),
    Tick(u64),
    Restart(bool),
    NewInjector(usize),
    CloneInjector(usize, usize),
    DropInjector(usize),
    /// Nucleo::update_config (takes the worker lock), followed by an observation
    UpdateConfig,
    /// start writer thread k (its script uses the given handle, which is moved into the thread)
    StartWriter(usize),
    JoinWriters,
    /// event loop: tick only when a notification arrived since the last tick; stop when quiet
    Drain(u64),
    /// the same, but without the initial tick: strictly notification driven
    DrainNotified(u64),
    Dump,
    /// wait until nothing is runnable (threads held by a rule do not count)
    WaitQuiet,
    /// forced replay: hold role/site until another role/site has happened (see sched::Rule)
    Rule(&'static str, &'static str, &'static str, &'static str),
    /// once (role, site) has happened, hold (role, site) until (role, site)
    RuleAfter(&'static str, &'static str, &'static str, &'static str, &'static str, &'static str),
}

#[derive(Clone, Debug)]
pub enum WOp {
    Push(u64),
    Extend(Vec<u64>),
}

#[derive(Clone, Debug)]
pub struct Scenario {
    pub name: String,
    pub threads: usize,
    pub cols: u32,
    pub ui: Vec<UiOp>,
    /// (handle id, ops); the handle must have been created by the UI script before StartWriter
    pub writers: Vec<(usize, Vec<WOp>)>,
}

fn pattern_key(mp: &MultiPattern, cols: u32) -> String {
    (0..cols as usize).map(|c| format!("{:?}", mp.column_pattern(c).atoms)).collect::<Vec<_>>().join("|")
}

fn set_pattern(mp: &mut MultiPattern, text: &str, append: bool) {
    mp.reparse(0, text, CaseMatching::Smart, Normalization::Smart, append);
}

struct Ctx {
    last_tick_seq: u64,
    sched: Arc<Sched>,
    cols: u32,
    stream: u64,
    cur_pat: usize,
    handles: HashMap<usize, (Injector<Payload>, u64)>,
    keys: Vec<String>,
}

fn dump(n: &Nucleo<Payload>, cx: &Ctx) -> String {
    let snap = n.snapshot();
    let key = pattern_key(snap.pattern(), cx.cols);
    let pat = cx.keys.iter().position(|k| *k == key).map_or(-1, |p| p as i64);
    let mut out = String::new();
    let _ = write!(out, "\"count\":{},\"pat\":{},\"matches\":[", snap.item_count(), pat);
    for (k, m) in snap.matches().iter().enumerate() {
        if k > 0 {
            out.push(',');
        }
        // the SAFE accessor: an unpublished entry is observed as -1 instead of being dereferenced
        let v = snap.get_item(m.idx).map_or(-1, |it| it.data.0 as i64);
        let _ = write!(out, "[{},{},{}]", if m.idx == u32::MAX { -1 } else { m.idx as i64 }, m.score, v);
    }
    out.push(']');
    out
}

fn ui_dump(n: &Nucleo<Payload>, cx: &Ctx) {
    cx.sched.user("call", "\"api\":\"dump\"".to_string());
    let d = dump(n, cx);
    cx.sched.user("ret", format!("\"api\":\"dump\",{},\"active\":{},\"stream\":{}", d, n.active_injectors(), cx.stream));
}

fn do_tick(n: &mut Nucleo<Payload>, cx: &Ctx, timeout: u64) -> nucleo::Status {
    cx.sched.user("call", format!("\"api\":\"tick\",\"timeout\":{},\"pat\":{},\"stream\":{}", timeout, cx.cur_pat, cx.stream));
    let st = n.tick(timeout);
    cx.sched.user("ret", format!("\"api\":\"tick\",\"changed\":{},\"running\":{}", st.changed, st.running));
    ui_dump(n, cx);
    st
}

pub fn run_scenario(sc: &Scenario, policy: Policy, run_id: u64, lines: &mut Vec<String>, starve: Option<&str>, path: &str) {
    DROPS.lock().unwrap().clear();
    let sched = Sched::new(policy);
    sched.starve(starve);
    nucleo::verif::install(Box::new(SinkRef(sched.clone())));
    set_role("main");
    // reference scores from fresh matchers: the oracle's table for this run
    let keys: Vec<String> = PATTERNS
        .iter()
        .map(|t| {
            let mut mp = MultiPattern::new(sc.cols as usize);
            set_pattern(&mut mp, t, false);
            pattern_key(&mp, sc.cols)
        })
        .collect();
    let mut ids: Vec<u64> = Vec::new();
    for (_, ops) in &sc.writers {
        for op in ops {
            match op {
                WOp::Push(v) => ids.push(*v),
                WOp::Extend(vs) => ids.extend(vs.iter().copied()),
            }
        }
    }
    ids.sort();
    ids.dedup();
    let mut hdr = String::new();
    let _ = write!(hdr, "\"run\":{},\"scenario\":\"{}\",\"threads\":{},\"cols\":{},\"npat\":{},\"items\":[", run_id, sc.name, sc.threads, sc.cols, PATTERNS.len());
    for (k, id) in ids.iter().enumerate() {
        if k > 0 {
            hdr.push(',');
        }
        let texts = item_texts(*id, sc.cols);
        let cols: Vec<Utf32String> = texts.iter().map(|t| Utf32String::from(t.as_str())).collect();
        let len: usize = cols.iter().map(|c| c.len()).sum();
        let _ = write!(hdr, "{{\"v\":{},\"len\":{},\"scores\":[", id, len);
        for (p, t) in PATTERNS.iter().enumerate() {
            if p > 0 {
                hdr.push(',');
            }
            let mut mp = MultiPattern::new(sc.cols as usize);
            set_pattern(&mut mp, t, false);
            let mut m = Matcher::new(Config::DEFAULT);
            let _ = write!(hdr, "{}", mp.score(&cols, &mut m).map_or(-1, |s| s as i64));
        }
        hdr.push_str("]}");
    }
    hdr.push(']');
    sched.user("reset", hdr);

    let s2 = sched.clone();
    // the notification is delivered ("notify"), then the callback lingers ("notify.done" is a second ordering point: a
    // scheduler rule can keep a user callback from returning, as a slow or blocking callback would)
    let notify = Arc::new(move || {
        s2.user("notify", String::new());
        s2.user("notify.done", String::new());
    });
    let mut nucleo: Nucleo<Payload> = Nucleo::new(Config::DEFAULT, notify, Some(sc.threads), sc.cols);
    let na = nucleo::verif::nucleo_addrs(&nucleo);
    let named = vec![("canceled".to_string(), na.canceled), ("should_notify".to_string(), na.should_notify)];
    let mut vec_addrs: Vec<(String, usize, usize, usize)> = vec![("s0".to_string(), na.inflight, na.buckets, na.nbuckets)];
    let mut cx = Ctx { last_tick_seq: 0, sched: sched.clone(), cols: sc.cols, stream: 0, cur_pat: 0, handles: HashMap::new(), keys };
    *CURRENT.lock().unwrap() = Some(Current { sched: sched.clone(), vec_addrs: vec_addrs.clone(), named: named.clone(), path: path.to_string(), run: run_id });
    let mut writers: Vec<Option<(usize, Vec<WOp>)>> = sc.writers.iter().cloned().map(Some).collect();
    let mut joins: Vec<std::thread::JoinHandle<()>> = Vec::new();
    sched.user("start", String::new());
    for op in &sc.ui {
        match op {
            UiOp::Reparse(p) => {
                let old = PATTERNS[cx.cur_pat];
                let new = PATTERNS[*p];
                let append = new.starts_with(old);
                sched.user("call", format!("\"api\":\"reparse\",\"pat\":{},\"append\":{}", p, append));
                set_pattern(&mut nucleo.pattern, new, append);
                cx.cur_pat = *p;
                sched.user("ret", "\"api\":\"reparse\"".to_string());
            }
            UiOp::Tick(t) => {
                cx.last_tick_seq = sched.seq();
                do_tick(&mut nucleo, &cx, *t);
            }
            UiOp::Restart(clear) => {
                sched.user("call", format!("\"api\":\"restart\",\"clear\":{}", clear));
                nucleo.restart(*clear);
                cx.stream += 1;
                let a = nucleo::verif::nucleo_addrs(&nucleo);
                vec_addrs.push((format!("s{}", cx.stream), a.inflight, a.buckets, a.nbuckets));
                if let Some(c) = CURRENT.lock().unwrap().as_mut() {
                    c.vec_addrs = vec_addrs.clone();
                }
                sched.user("ret", format!("\"api\":\"restart\",\"stream\":{}", cx.stream));
                ui_dump(&nucleo, &cx);
            }
            UiOp::NewInjector(h) => {
                sched.user("call", format!("\"api\":\"injector\",\"h\":{},\"stream\":{}", h, cx.stream));
                cx.handles.insert(*h, (nucleo.injector(), cx.stream));
                sched.user("ret", format!("\"api\":\"injector\",\"h\":{},\"active\":{}", h, nucleo.active_injectors()));
            }
            UiOp::CloneInjector(h, from) => {
                if let Some((inj, st)) = cx.handles.get(from).map(|(i, s)| (i.clone(), *s)) {
                    sched.user("call", format!("\"api\":\"clone_injector\",\"h\":{},\"stream\":{}", h, st));
                    cx.handles.insert(*h, (inj, st));
                    sched.user("ret", format!("\"api\":\"clone_injector\",\"h\":{},\"active\":{}", h, nucleo.active_injectors()));
                }
            }
            UiOp::DropInjector(h) => {
                if let Some((inj, st)) = cx.handles.remove(h) {
                    sched.user("call", format!("\"api\":\"drop_injector\",\"h\":{},\"stream\":{}", h, st));
                    drop(inj);
                    sched.user("ret", format!("\"api\":\"drop_injector\",\"h\":{},\"active\":{}", h, nucleo.active_injectors()));
                }
            }
            UiOp::StartWriter(k) => {
                if let Some((h, ops)) = writers[*k].take() {
                    if let Some((inj, st)) = cx.handles.remove(&h) {
                        let s3 = sched.clone();
                        let cols = sc.cols;
                        let role = format!("w{}", k + 1);
                        sched.user("spawn", format!("\"writer\":{},\"h\":{},\"stream\":{}", k + 1, h, st));
                        joins.push(std::thread::spawn(move || {
                            set_role(&role);
                            for op in &ops {
                                match op {
                                    WOp::Push(v) => {
                                        s3.user("call", format!("\"api\":\"push\",\"v\":{},\"h\":{},\"stream\":{}", v, h, st));
                                        let idx = inj.push(Payload(*v), fill(cols));
                                        s3.user("ret", format!("\"api\":\"push\",\"v\":{},\"idx\":{},\"stream\":{}", v, idx, st));
                                    }
                                    WOp::Extend(vs) => {
                                        s3.user("call", format!("\"api\":\"extend\",\"vals\":{:?},\"h\":{},\"stream\":{}", vs, h, st));
                                        inj.extend(vs.iter().map(|&v| Payload(v)).collect::<Vec<_>>().into_iter(), fill(cols));
                                        s3.user("ret", format!("\"api\":\"extend\",\"vals\":{:?},\"stream\":{}", vs, st));
                                    }
                                }
                            }
                            s3.user("call", format!("\"api\":\"drop_injector\",\"h\":{},\"stream\":{}", h, st));
                            drop(inj);
                            s3.user("ret", format!("\"api\":\"drop_injector\",\"h\":{},\"active\":-1", h));
                            s3.thread_done();
                        }));
                    }
                }
            }
            UiOp::JoinWriters => {
                sched.thread_blocked(true);
                for j in joins.drain(..) {
                    let _ = j.join();
                }
                sched.thread_blocked(false);
                sched.user("joined", String::new());
            }
            UiOp::Dump => ui_dump(&nucleo, &cx),
            UiOp::UpdateConfig => {
                sched.user("call", "\"api\":\"update_config\"".to_string());
                // waits for the worker lock in uninstrumented code
                sched.thread_blocked(true);
                nucleo.update_config(Config::DEFAULT);
                sched.thread_blocked(false);
                sched.user("ret", "\"api\":\"update_config\"".to_string());
                ui_dump(&nucleo, &cx);
            }
            UiOp::WaitQuiet => {
                sched.wait_quiet(Duration::from_millis(4));
            }
            UiOp::RuleAfter(ar, a_s, br, bs, ur, us) => {
                sched.add_rule_after((ar, a_s), (br, bs), (ur, us));
                sched.user("rule", format!("\"after\":\"{}@{}\",\"block\":\"{}@{}\",\"until\":\"{}@{}\"", ar, a_s, br, bs, ur, us));
            }
            UiOp::Rule(br, bs, ur, us) => {
                sched.add_rule((br, bs), (ur, us));
                sched.user("rule", format!("\"block\":\"{}@{}\",\"until\":\"{}@{}\"", br, bs, ur, us));
            }
            UiOp::Drain(timeout) | UiOp::DrainNotified(timeout) => {
                // an event loop that only ticks when notified (or once, right after its own edits)
                let mut last_tick_seq = cx.last_tick_seq;
                let mut first = matches!(op, UiOp::Drain(_));
                for _round in 0..12 {
                    sched.wait_quiet(Duration::from_millis(4));
                    let mut pending = sched.count_since("notify", last_tick_seq) > 0;
                    // a real event loop blocks until it is notified: while a spawned run has not ended yet, wait as a
                    // blocked thread (so that a schedule that starves the pool lets it run), with bounded patience
                    let mut patience = 0;
                    while !pending && !first && patience < 40 && sched.count_since("tick.spawn", 0) > sched.count_since("run.done", 0) {
                        sched.thread_blocked(true);
                        std::thread::sleep(Duration::from_millis(2));
                        sched.thread_blocked(false);
                        sched.wait_quiet(Duration::from_millis(2));
                        pending = sched.count_since("notify", last_tick_seq) > 0;
                        patience += 1;
                    }
                    if !(pending || first) {
                        break;
                    }
                    first = false;
                    last_tick_seq = sched.seq();
                    do_tick(&mut nucleo, &cx, *timeout);
                }
                sched.wait_quiet(Duration::from_millis(4));
                sched.user("quiescent", format!("\"pat\":{},\"stream\":{}", cx.cur_pat, cx.stream));
                ui_dump(&nucleo, &cx);
            }
        }
    }
    sched.thread_blocked(true);
    for j in joins.drain(..) {
        let _ = j.join();
    }
    sched.thread_blocked(false);
    // tear down: remaining injector handles, then the matcher itself
    let hs: Vec<usize> = cx.handles.keys().copied().collect();
    for h in hs {
        let (inj, st) = cx.handles.remove(&h).unwrap();
        sched.user("call", format!("\"api\":\"drop_injector\",\"h\":{},\"stream\":{}", h, st));
        drop(inj);
        sched.user("ret", format!("\"api\":\"drop_injector\",\"h\":{},\"active\":{}", h, nucleo.active_injectors()));
    }
    sched.wait_quiet(Duration::from_millis(4));
    sched.user("call", "\"api\":\"drop_nucleo\"".to_string());
    let before: Vec<u64> = DROPS.lock().unwrap().clone();
    drop(nucleo);
    // the pool threads drop their handles asynchronously: wait for them
    std::thread::sleep(Duration::from_millis(2));
    sched.wait_quiet(Duration::from_millis(6));
    let after: Vec<u64> = DROPS.lock().unwrap().clone();
    sched.user("ret", format!("\"api\":\"drop_nucleo\",\"dropped_before\":{:?},\"dropped_after\":{:?}", before, &after[before.len()..]));
    sched.user("end", String::new());
    *CURRENT.lock().unwrap() = None;
    nucleo::verif::uninstall();
    let (log, _d, fail) = sched.finish();
    render(&log, &vec_addrs, &named, lines);
    if let Some(f) = fail {
        lines.push(format!("{{\"seq\":0,\"tid\":0,\"role\":\"main\",\"site\":\"script_failed\",\"why\":{}}}", serde_json::to_string(&f).unwrap()));
    }
}

pub fn scenarios(thorough: bool, rng: &mut StdRng) -> Vec<Scenario> {
    use UiOp::*;
    use WOp::*;
    let mut v = Vec::new();
    let mut s = |name: &str, threads: usize, cols: u32, ui: Vec<UiOp>, writers: Vec<(usize, Vec<WOp>)>| {
        v.push(Scenario { name: name.into(), threads, cols, ui, writers })
    };
    // basic streaming with a fixed pattern
    s("stream-basic", 2, 1, vec![NewInjector(1), Reparse(2), StartWriter(0), Tick(0), Tick(50), JoinWriters, Drain(10)], vec![(1, vec![Push(1), Push(2), Extend(vec![3, 4, 5])])]);
    // two writers racing with ticks: in-flight items seen by the scan
    s("two-writers", 2, 1, vec![NewInjector(1), NewInjector(2), Reparse(1), StartWriter(0), StartWriter(1), Tick(0), Tick(0), Tick(20), JoinWriters, Drain(10)],
      vec![(1, vec![Push(1), Push(2), Push(3)]), (2, vec![Extend(vec![4, 5, 6]), Push(7)])]);
    // typing: append edits, then a non-append edit (rescore), with items arriving
    s("typing", 2, 1, vec![NewInjector(1), StartWriter(0), Reparse(1), Tick(0), Reparse(2), Tick(10), Reparse(3), Tick(0), Reparse(12), Tick(10), JoinWriters, Drain(10)],
      vec![(1, vec![Extend(vec![1, 2, 3, 4]), Push(5), Push(6), Push(8)])]);
    // rescore while writers are in flight (the in-flight bookkeeping)
    s("rescore-inflight", 3, 1, vec![NewInjector(1), NewInjector(2), Reparse(1), StartWriter(0), StartWriter(1), Tick(5), Reparse(12), Tick(5), Reparse(0), Tick(5), Reparse(1), Tick(5), JoinWriters, Drain(10)],
      vec![(1, vec![Push(1), Push(2), Push(3), Push(4)]), (2, vec![Push(5), Push(6), Extend(vec![7, 8, 9])])]);
    // the append heuristic: foo$ -> foo$b and a\ -> a\ b
    s("append-dollar", 1, 1, vec![NewInjector(1), StartWriter(0), JoinWriters, Reparse(3), Drain(10), Reparse(4), Drain(10), Reparse(5), Drain(10)], vec![(1, vec![Extend(vec![0, 1, 4, 11, 7, 8])])]);
    s("append-backslash", 1, 1, vec![NewInjector(1), StartWriter(0), JoinWriters, Reparse(6), Drain(10), Reparse(7), Drain(10)], vec![(1, vec![Extend(vec![5, 6, 0, 2])])]);
    // several edits between two ticks: a non-append edit followed by an append edit
    s("edit-burst", 2, 1, vec![NewInjector(1), StartWriter(0), JoinWriters, Reparse(3), Drain(10), Reparse(12), Reparse(14), Drain(10), Reparse(15), Drain(10), Reparse(1), Reparse(2), Reparse(12), Reparse(14), Drain(10)],
      vec![(1, vec![Extend(vec![0, 1, 2, 9, 7, 8, 3])])]);
    // negative patterns
    s("negative", 2, 1, vec![NewInjector(1), StartWriter(0), Reparse(8), Tick(0), Reparse(9), Tick(10), JoinWriters, Drain(10)], vec![(1, vec![Extend(vec![0, 1, 2, 3]), Push(7)])]);
    // restart with and without clearing, old injector keeps pushing
    s("restart-clear", 2, 1, vec![NewInjector(1), Reparse(1), StartWriter(0), Tick(10), Restart(true), NewInjector(2), StartWriter(1), Tick(0), Tick(10), JoinWriters, Drain(10)],
      vec![(1, vec![Push(1), Push(2), Push(3), Push(4)]), (2, vec![Push(1001), Push(1002)])]);
    s("restart-keep", 2, 1, vec![NewInjector(1), Reparse(1), StartWriter(0), Tick(10), Tick(10), Restart(false), NewInjector(2), StartWriter(1), Tick(0), Tick(0), Tick(10), JoinWriters, Drain(10)],
      vec![(1, vec![Push(1), Push(2), Push(3), Push(4)]), (2, vec![Push(1001), Push(1002), Push(1003)])]);
    s("restart-twice", 2, 1, vec![NewInjector(1), StartWriter(0), Reparse(2), Tick(0), Restart(false), Restart(true), NewInjector(2), StartWriter(1), Tick(0), JoinWriters, Drain(10)],
      vec![(1, vec![Extend(vec![1, 2, 3])]), (2, vec![Push(2001), Push(2002)])]);
    s("restart-empty-pattern", 1, 1, vec![NewInjector(1), StartWriter(0), Tick(10), Restart(false), NewInjector(2), StartWriter(1), Tick(0), JoinWriters, Drain(10)],
      vec![(1, vec![Push(1), Push(2)]), (2, vec![Push(1001)])]);
    // forced replays of the protocol model's lost wake-up counterexamples (spec -> impl): Nucleo.tla TickTryFail ..
    // NRead .. RunEnd .. TickArm (cancelling and plain tick) and Notify .. TickBegin .. TickTryFail .. TickArm .. RunEnd
    // the schedules that used to lose the wake-up (the run finishes entirely - unlock, read of the flag - while the
    // tick sits between its failed lock attempt and arming the flag; the run is held right before it unlocks until the
    // reacting tick has armed the flag), plus the windows of the repaired hand-over
    s("forced-lost-wakeup-cancelling-tick", 1, 1, vec![NewInjector(1), StartWriter(0), JoinWriters, Reparse(1), Rule("main", "tick.try_lock_failed", "pool", "run.done"), Tick(0), DrainNotified(0)],
      vec![(1, vec![Extend(vec![0, 1, 2])])]);
    s("forced-lost-wakeup-plain-tick", 1, 1, vec![NewInjector(1), Reparse(1), Tick(50), StartWriter(0), JoinWriters, Tick(0), Rule("main", "tick.try_lock_failed", "pool", "run.done"), Tick(0), DrainNotified(0)],
      vec![(1, vec![Extend(vec![0, 1, 2])])]);
    s("forced-lost-wakeup-notify-before-unlock", 1, 1, vec![NewInjector(1), StartWriter(0), JoinWriters, Reparse(1), Tick(0), Rule("pool", "run.end", "main", "tick.armed"), DrainNotified(0)],
      vec![(1, vec![Extend(vec![0, 1, 2])])]);
    // the matcher is dropped right after a restart while the run spawned by the last tick is still in flight: drop has
    // to wait for that run (it still owns the old stream) - every item is destroyed by the time drop returns
    // a new matcher configuration between a restart and the next tick (and in the other states) leaves the handle count alone
    s("restart-update-config", 1, 1, vec![NewInjector(1), UpdateConfig, Tick(0), UpdateConfig, Restart(false), UpdateConfig, NewInjector(2), UpdateConfig, Tick(10), UpdateConfig, Restart(true), UpdateConfig,
        DropInjector(2), UpdateConfig, Tick(10), Dump], vec![]);
    s("restart-then-drop-during-run", 1, 1, vec![NewInjector(1), StartWriter(0), JoinWriters, Reparse(1), Rule("pool", "run.begin", "main", "drop.lock"), Tick(0), DropInjector(1), Restart(false)],
      vec![(1, vec![Extend(vec![0, 1, 2]), Push(3)])]);
    s("restart-clear-then-drop-during-run", 2, 1, vec![NewInjector(1), StartWriter(0), JoinWriters, Rule("pool", "run.begin", "main", "drop.lock"), Tick(0), DropInjector(1), Restart(true)],
      vec![(1, vec![Extend(vec![0, 1, 2]), Push(3)])]);
    s("forced-slow-notify-callback", 1, 1, vec![NewInjector(1), StartWriter(0), JoinWriters, Reparse(1), Rule("pool", "notify.done", "main", "tick.retry_lock"), Tick(0), DrainNotified(0)],
      vec![(1, vec![Extend(vec![0, 1, 2])])]);
    s("forced-slow-notify-callback-2", 2, 1, vec![NewInjector(1), Reparse(1), Tick(50), StartWriter(0), JoinWriters, Rule("pool", "notify.done", "main", "tick.try_lock_failed"), DrainNotified(0)],
      vec![(1, vec![Push(1), Push(2)])]);
    s("forced-unlock-before-second-attempt", 1, 1, vec![NewInjector(1), StartWriter(0), JoinWriters, Reparse(1), Rule("pool", "run.unlocked", "main", "tick.retry_lock"), Tick(0), DrainNotified(0)],
      vec![(1, vec![Extend(vec![0, 1, 2])])]);
    s("forced-second-attempt-before-unlock", 1, 1, vec![NewInjector(1), StartWriter(0), JoinWriters, Reparse(1), Rule("pool", "run.end", "main", "tick.retry_lock"), Tick(0), DrainNotified(0)],
      vec![(1, vec![Extend(vec![0, 1, 2])])]);
    s("forced-arm-between-unlock-and-flag-read", 1, 1, vec![NewInjector(1), Reparse(1), Tick(50), StartWriter(0), JoinWriters, Tick(0), Rule("pool", "run.unlocked", "main", "tick.armed"), Tick(0), DrainNotified(0)],
      vec![(1, vec![Extend(vec![0, 1, 2])])]);
    // adversarial schedules for the spawn / notify hand-over: the whole run happens before the UI thread does anything
    // else after spawning it (rules that cannot be honoured by the code under test expire)
    s("run-completes-right-after-spawn", 1, 1, vec![NewInjector(1), Reparse(1), Tick(50), StartWriter(0), JoinWriters, RuleAfter("main", "tick.spawn", "main", "", "pool", "run.end"), Tick(0), DrainNotified(10)],
      vec![(1, vec![Push(1), Push(2)])]);
    s("run-completes-right-after-spawn-empty", 1, 1, vec![NewInjector(1), Tick(50), StartWriter(0), JoinWriters, RuleAfter("main", "tick.spawn", "main", "", "pool", "run.end"), Tick(0), DrainNotified(10)],
      vec![(1, vec![Push(1), Push(2)])]);
    // empty pattern, a push that is in flight while the worker scans and completes later without any newer index
    s("empty-pattern-inflight", 1, 1, vec![NewInjector(1), StartWriter(0), Tick(0), Tick(0), Tick(5), JoinWriters, DrainNotified(10)], vec![(1, vec![Push(1)])]);
    s("empty-pattern-inflight-2", 2, 1, vec![NewInjector(1), NewInjector(2), StartWriter(0), StartWriter(1), Tick(0), Tick(0), Tick(5), JoinWriters, DrainNotified(10)],
      vec![(1, vec![Push(1)]), (2, vec![Push(2), Push(3)])]);
    s("empty-pattern-inflight-forced", 1, 1, vec![NewInjector(1), RuleAfter("w1", "atomic.fetch_add", "w1", "", "pool", "run.end"), StartWriter(0), WaitQuiet, Tick(50), JoinWriters, DrainNotified(10)],
      vec![(1, vec![Push(1)])]);
    s("pattern-inflight-forced", 2, 1, vec![NewInjector(1), Reparse(1), RuleAfter("w1", "atomic.fetch_add", "w1", "", "pool", "run.end"), StartWriter(0), WaitQuiet, Tick(50), JoinWriters, DrainNotified(10)],
      vec![(1, vec![Push(1)])]);
    // ... and with a second writer whose later indices are published, scanned and harvested while the first writer's
    // lower index is still in flight: the late item must end up where a from-scratch run puts it (C07-13)
    s("empty-pattern-inflight-forced-2", 1, 1, vec![NewInjector(1), NewInjector(2), RuleAfter("w1", "atomic.fetch_add", "w1", "", "pool", "run.end"), StartWriter(0), WaitQuiet, StartWriter(1),
        WaitQuiet, Tick(50), JoinWriters, DrainNotified(10)],
      vec![(1, vec![Push(1)]), (2, vec![Push(2), Push(3)])]);
    s("pattern-inflight-forced-2", 2, 1, vec![NewInjector(1), NewInjector(2), Reparse(1), RuleAfter("w1", "atomic.fetch_add", "w1", "", "pool", "run.end"), StartWriter(0), WaitQuiet, StartWriter(1),
        WaitQuiet, Tick(50), JoinWriters, DrainNotified(10)],
      vec![(1, vec![Push(1)]), (2, vec![Push(2), Push(3)])]);
    // an append edit that cancels a scan in progress, then quiescence without any non-append edit
    s("append-cancels-scan", 3, 1, vec![NewInjector(1), StartWriter(0), JoinWriters, Reparse(1), Tick(0), Reparse(2), Tick(0), Drain(10)],
      vec![(1, vec![Extend(vec![0, 1, 3, 7, 8, 9, 10, 12, 13, 15, 19, 20])])]);
    s("append-cancels-scan-streaming", 2, 1, vec![NewInjector(1), Reparse(1), StartWriter(0), Tick(0), Reparse(2), Tick(0), Reparse(3), Tick(0), JoinWriters, Drain(10)],
      vec![(1, vec![Extend(vec![0, 1, 3, 7]), Extend(vec![8, 9, 10, 12]), Push(13)])]);
    // an injector obtained between two restarts must not feed the new stream
    s("restart-stale-injector", 2, 1, vec![NewInjector(1), Reparse(1), Restart(false), NewInjector(2), Restart(false), NewInjector(3), StartWriter(0), StartWriter(1), Tick(0), Tick(10), JoinWriters, Drain(10)],
      vec![(2, vec![Push(1001), Push(1002)]), (3, vec![Push(2001)])]);
    // the first run after a restart is cancelled (by an append edit) before the pool thread starts it
    s("restart-cancel-before-run", 2, 1, vec![NewInjector(1), Reparse(1), StartWriter(0), JoinWriters, Drain(10), Restart(false), NewInjector(2), StartWriter(1), JoinWriters,
        RuleAfter("main", "tick.spawn", "pool", "", "main", "tick.lock"), Tick(0), Reparse(2), Tick(0), Drain(10)],
      vec![(1, vec![Extend(vec![2, 0, 14, 1, 5, 3])]), (2, vec![Extend(vec![1000, 1001, 1003, 1007, 1008, 1009, 1012, 1013])])]);
    // ... the same with a new stream that is shorter than the old one: bookkeeping of the old stream (scan position, match
    // indices) that survives into the first real run over the new stream points past its end (C12-13)
    s("restart-cancel-before-run-shorter", 2, 1, vec![NewInjector(1), Reparse(1), StartWriter(0), JoinWriters, Drain(10), Restart(false), NewInjector(2), StartWriter(1), JoinWriters,
        RuleAfter("main", "tick.spawn", "pool", "", "main", "tick.lock"), Tick(0), Reparse(2), Tick(0), Drain(10)],
      vec![(1, vec![Extend(vec![2, 0, 14, 1, 5, 3, 7, 9])]), (2, vec![Extend(vec![1000, 1003])])]);
    s("restart-clear-cancel-before-run-shorter", 1, 1, vec![NewInjector(1), Reparse(1), StartWriter(0), JoinWriters, Drain(10), Restart(true), NewInjector(2), StartWriter(1), JoinWriters,
        RuleAfter("main", "tick.spawn", "pool", "", "main", "tick.lock"), Tick(0), Reparse(12), Tick(0), Drain(10)],
      vec![(1, vec![Extend(vec![2, 0, 14, 1, 5, 3, 7, 9])]), (2, vec![Push(1001), Push(1002)])]);
    // handle bookkeeping
    s("handles", 1, 1, vec![NewInjector(1), CloneInjector(2, 1), Dump, DropInjector(1), Restart(false), Dump, NewInjector(3), Tick(0), DropInjector(2), Restart(true), Tick(0), NewInjector(4), CloneInjector(5, 4), Restart(false), Restart(false), DropInjector(4), Tick(10), Dump,
      Restart(false), NewInjector(6), Dump, Restart(false), Dump, NewInjector(7), Restart(true), NewInjector(8), CloneInjector(9, 8), Restart(true), Dump, DropInjector(6), DropInjector(8), Dump, Tick(0), Dump], vec![]);
    // two columns
    s("two-columns", 2, 2, vec![NewInjector(1), Reparse(3), StartWriter(0), Tick(0), Tick(10), Reparse(0), Tick(10), JoinWriters, Drain(10)], vec![(1, vec![Extend(vec![0, 1, 2, 3, 4, 5]), Push(6), Push(9)])]);
    // bigger batch (crosses no bucket boundary but exercises the parallel scan)
    s("batch-40", 4, 1, vec![NewInjector(1), Reparse(1), StartWriter(0), Tick(0), Tick(5), Reparse(12), Tick(5), JoinWriters, Drain(10)], vec![(1, vec![Extend((1..=40).collect()), Push(41)])]);
    let n = if thorough { 40 } else { 8 };
    for k in 0..n {
        let threads = *[1usize, 2, 2, 3, 4].choose(rng).unwrap();
        let cols = if rng.gen_bool(0.2) { 2 } else { 1 };
        let mut ui = vec![NewInjector(1), NewInjector(2), StartWriter(0)];
        let mut started1 = false;
        let mut restarted = false;
        let mut pat = 0usize;
        for _ in 0..rng.gen_range(4..9) {
            match rng.gen_range(0..12) {
                0..=3 => ui.push(Tick(*[0u64, 0, 5, 30].choose(rng).unwrap())),
                4..=6 => {
                    // mostly append edits along the chains, sometimes unrelated texts
                    let next = match pat {
                        0 => *[1usize, 8, 10, 12].choose(rng).unwrap(),
                        1 => *[2usize, 13, 0].choose(rng).unwrap(),
                        2 => *[3usize, 13].choose(rng).unwrap(),
                        3 => *[4usize, 0, 11].choose(rng).unwrap(),
                        4 => *[5usize, 3].choose(rng).unwrap(),
                        6 => 7,
                        8 => *[9usize, 0].choose(rng).unwrap(),
                        _ => *[0usize, 1, 6, 12].choose(rng).unwrap(),
                    };
                    pat = next;
                    ui.push(Reparse(next));
                }
                7 if !started1 => {
                    started1 = true;
                    ui.push(StartWriter(1));
                }
                8 if !restarted => {
                    restarted = true;
                    ui.push(Restart(rng.gen_bool(0.5)));
                    ui.push(NewInjector(3));
                    ui.push(StartWriter(2));
                }
                9 => ui.push(Dump),
                _ => ui.push(Tick(0)),
            }
        }
        ui.push(JoinWriters);
        ui.push(Drain(10));
        let w = |rng: &mut StdRng, base: u64| -> Vec<WOp> {
            let mut ops = Vec::new();
            let mut next = base;
            for _ in 0..rng.gen_range(1..4) {
                if rng.gen_bool(0.6) {
                    next += 1;
                    ops.push(Push(next));
                } else {
                    let l = rng.gen_range(1..5);
                    ops.push(Extend((0..l).map(|_| {
                        next += 1;
                        next
                    }).collect()));
                }
            }
            ops
        };
        let writers = vec![(1, w(rng, 0)), (2, w(rng, 100)), (3, w(rng, 1000))];
        v.push(Scenario { name: format!("random-{}", k), threads, cols, ui, writers });
    }
    v
}

pub fn run(tier: &str, seed: u64, shards: usize, outdir: &str, only: Option<&str>, shard_sel: Option<usize>, from: u64) {
    std::fs::create_dir_all(outdir).unwrap();
    let thorough = tier == "thorough";
    let mut rng = StdRng::seed_from_u64(seed ^ 0x2C1E0);
    let scs = scenarios(thorough, &mut rng);
    let per = if thorough { 150 } else { 24 };
    install_crash_hook();
    let mut run_id = 0u64;
    let mut files: HashMap<usize, std::io::BufWriter<std::fs::File>> = HashMap::new();
    for sc in &scs {
        if let Some(o) = only {
            if !sc.name.contains(o) {
                continue;
            }
        }
        for k in 0..per {
            run_id += 1;
            let shard = (run_id as usize) % shards;
            if let Some(sel) = shard_sel {
                if sel != shard {
                    continue;
                }
            }
            if run_id < from {
                continue;
            }
            let path = format!("{}/shard-{:02}.ndjson", outdir, shard);
            // marker for the driver: if the process dies without a word (segfault, abort), this is the run that did it
            let _ = std::fs::write(format!("{}/shard-{:02}.current", outdir, shard), format!("{{\"run\":{},\"scenario\":\"{}\"}}", run_id, sc.name));
            let mut lines = Vec::new();
            let pol = if k == 0 { Policy::Free } else { Policy::Random(seed.wrapping_mul(104729).wrapping_add(run_id), 120) };
            let starve = match k % 6 {
                1 => Some("main"),
                2 => Some("w"),
                3 => Some("pool"),
                _ => None,
            };
            run_scenario(sc, pol, run_id, &mut lines, starve, &path);
            let f = files.entry(shard).or_insert_with(|| std::io::BufWriter::new(std::fs::OpenOptions::new().append(true).create(true).open(&path).unwrap()));
            for l in lines {
                writeln!(f, "{}", l).unwrap();
            }
            f.flush().unwrap();
        }
    }
    let _ = std::panic::take_hook();
    println!("{{\"runs\":{},\"scenarios\":{},\"shards\":{}}}", run_id, scs.len(), shards);
}
