//! `score-trace`: composition records for spec/PatternScore.tla (C15).
//! Per record: a parsed pattern (1-4 atoms of mixed kind/polarity/case/normalisation flags), a haystack, the
//! un-negated inner result of every atom from a matcher that served only this atom, and the results of
//! Pattern::score / Pattern::indices (original and permuted atom order), MultiPattern::score,
//! Pattern::match_list and Atom::match_list on one shared long-lived matcher whose case/normalisation
//! settings are scrambled before each call.
use nucleo::pattern::MultiPattern;
use nucleo_matcher::pattern::{Atom, AtomKind, CaseMatching, Normalization, Pattern};
use nucleo_matcher::{Config, Matcher, Utf32Str, Utf32String};
use rand::rngs::StdRng;
use rand::seq::SliceRandom;
use rand::{Rng, SeedableRng};
use std::fmt::Write as _;
use std::io::Write as _;

struct Item {
    id: usize,
    text: String,
}
impl AsRef<str> for Item {
    fn as_ref(&self) -> &str {
        &self.text
    }
}

fn u32s<I: IntoIterator<Item = u32>>(out: &mut String, it: I) {
    out.push('[');
    let mut first = true;
    for v in it {
        if !first {
            out.push(',');
        }
        first = false;
        let _ = write!(out, "{}", v);
    }
    out.push(']');
}
fn opt(s: Option<u32>) -> i64 {
    s.map_or(-1, |v| v as i64)
}

const WORDS: [&str; 24] = [
    "foo", "bar", "Baz", "fooBar", "qux", "main", "rs", "src", "lib", "Café", "cafe", "naïve", "über", "Str", "path", "to", "file",
    "x", "README", "md", "ÉCOLE", "ecole", "a_b", "a-b",
];

fn gen_hay(rng: &mut StdRng) -> String {
    if rng.gen_bool(0.04) {
        return String::new();
    }
    let n = rng.gen_range(1..5);
    let mut s = String::new();
    for i in 0..n {
        if i > 0 {
            s.push(*[' ', '/', '_', '-', '.'].choose(rng).unwrap());
        }
        s.push_str(WORDS.choose(rng).unwrap());
    }
    if rng.gen_bool(0.1) {
        s.insert(0, ' ');
    }
    if rng.gen_bool(0.1) {
        s.push(' ');
    }
    s
}

fn gen_pattern(rng: &mut StdRng, hay: &str) -> String {
    let n = rng.gen_range(0..5);
    let hc: Vec<char> = hay.chars().collect();
    let mut parts = Vec::new();
    // exclusion-only queries are a case of their own: they accept text the atoms never touch (also empty text)
    let only_negative = rng.gen_bool(0.12);
    for _ in 0..n {
        let mut w: String = if rng.gen_bool(0.7) && !hc.is_empty() {
            // a (sub)sequence of the haystack
            let a = rng.gen_range(0..hc.len());
            let l = rng.gen_range(1..=4.min(hc.len() - a));
            hc[a..a + l].iter().filter(|c| !c.is_whitespace()).collect()
        } else {
            WORDS.choose(rng).unwrap().chars().take(rng.gen_range(1..4)).collect()
        };
        if rng.gen_bool(0.3) {
            w = w.to_lowercase();
        }
        if rng.gen_bool(0.15) {
            w = w.to_uppercase();
        }
        let pre = if only_negative {
            *["!", "!", "!^", "!'"].choose(rng).unwrap()
        } else {
            *["", "", "", "!", "^", "'", "!^", "!'"].choose(rng).unwrap()
        };
        let post = *["", "", "", "$"].choose(rng).unwrap();
        parts.push(format!("{}{}{}", pre, w, post));
    }
    parts.join(" ")
}

fn scramble(m: &mut Matcher, rng: &mut StdRng) {
    m.config.ignore_case = rng.gen_bool(0.5);
    m.config.normalize = rng.gen_bool(0.5);
}

/// The un-negated result of one atom, obtained by calling the `Matcher` entry point of the atom's kind
/// directly (not through Atom::score / Atom::indices, which are under test) with the atom's flags.
fn inner(a: &Atom, m: &mut Matcher, hay: &str) -> (i64, Vec<u32>) {
    let dbg = format!("{:?}", a);
    m.config.ignore_case = dbg.contains("ignore_case: true");
    m.config.normalize = dbg.contains("normalize: true");
    let mut buf = Vec::new();
    let mut idx = Vec::new();
    let h = Utf32Str::new(hay, &mut buf);
    let n = a.needle_text();
    let s = match a.kind {
        AtomKind::Fuzzy => m.fuzzy_indices(h, n, &mut idx),
        AtomKind::Substring => m.substring_indices(h, n, &mut idx),
        AtomKind::Prefix => m.prefix_indices(h, n, &mut idx),
        AtomKind::Postfix => m.postfix_indices(h, n, &mut idx),
        AtomKind::Exact => m.exact_indices(h, n, &mut idx),
        _ => None,
    };
    (s.map_or(-1, |v| v as i64), idx)
}

pub fn record(id: u64, rng: &mut StdRng, shared: &mut Matcher, config: &Config) -> String {
    // one record in 400: a long haystack without whitespace and a pattern of 3-5 long chunks of it, so that the atom
    // scores add up to more than a u16 holds
    let (hay, text) = if id % 400 == 7 {
        let a: Vec<char> = "abcxyz/_-".chars().collect();
        let hay: String = (0..6000).map(|_| *a.choose(rng).unwrap()).collect();
        let k = rng.gen_range(3..=5);
        let text = (0..k)
            .map(|_| {
                let st = rng.gen_range(0..6000 - 1300);
                hay[st..st + rng.gen_range(1000..1300)].to_string()
            })
            .collect::<Vec<_>>()
            .join(" ");
        (hay, text)
    } else {
        let hay = gen_hay(rng);
        let text = gen_pattern(rng, &hay);
        (hay, text)
    };
    let case = *[CaseMatching::Smart, CaseMatching::Smart, CaseMatching::Ignore, CaseMatching::Respect].choose(rng).unwrap();
    let norm = *[Normalization::Smart, Normalization::Smart, Normalization::Never].choose(rng).unwrap();
    let pattern = Pattern::parse(&text, case, norm);
    let n = pattern.atoms.len();
    // one matcher per atom: it only ever serves this atom
    let mut per_atom: Vec<Matcher> = (0..n).map(|_| Matcher::new(config.clone())).collect();
    let mut out = String::new();
    let _ = write!(out, "{{\"id\":{},\"text\":{},\"hay\":{},\"panic\":false,\"atoms\":[", id, serde_json::to_string(&text).unwrap(), serde_json::to_string(&hay).unwrap());
    for (k, a) in pattern.atoms.iter().enumerate() {
        if k > 0 {
            out.push(',');
        }
        crate::ptrace::atom_json(&mut out, a);
    }
    out.push_str("],\"inner\":[");
    for (k, a) in pattern.atoms.iter().enumerate() {
        if k > 0 {
            out.push(',');
        }
        let (s, idx) = inner(a, &mut per_atom[k], &hay);
        let _ = write!(out, "{{\"s\":{},\"idx\":", s);
        u32s(&mut out, idx);
        out.push('}');
    }
    out.push(']');
    let mut buf = Vec::new();
    let h = Utf32Str::new(&hay, &mut buf);
    scramble(shared, rng);
    let score = pattern.score(h, shared);
    let pre: Vec<u32> = (0..rng.gen_range(0..3)).map(|_| 7_000_000 + rng.gen_range(0..100)).collect();
    let mut ind = pre.clone();
    scramble(shared, rng);
    let inds = pattern.indices(h, shared, &mut ind);
    let _ = write!(out, ",\"score\":{},\"pre\":", opt(score));
    u32s(&mut out, pre);
    let _ = write!(out, ",\"ind\":{{\"s\":{},\"after\":", opt(inds));
    u32s(&mut out, ind);
    out.push('}');
    // permuted atom order
    let mut perm: Vec<usize> = (0..n).collect();
    perm.shuffle(rng);
    let mut p2 = Pattern::default();
    p2.atoms = perm.iter().map(|&k| pattern.atoms[k].clone()).collect();
    scramble(shared, rng);
    let ps = p2.score(h, shared);
    let mut pind = Vec::new();
    scramble(shared, rng);
    p2.indices(h, shared, &mut pind);
    out.push_str(",\"perm\":");
    u32s(&mut out, perm.iter().map(|&k| k as u32 + 1));
    let _ = write!(out, ",\"pscore\":{},\"pind\":", opt(ps));
    u32s(&mut out, pind);
    // multi-column
    let ncols = rng.gen_range(1..=3);
    let col_hays: Vec<String> = (0..ncols)
        .map(|c| {
            if c == 0 {
                hay.clone()
            } else if rng.gen_bool(0.2) {
                String::new()
            } else {
                gen_hay(rng)
            }
        })
        .collect();
    let mut mp = MultiPattern::new(ncols);
    for c in 0..ncols {
        mp.reparse(c, &text, case, norm, false);
    }
    let cols: Vec<Utf32String> = col_hays.iter().map(|s| Utf32String::from(s.as_str())).collect();
    scramble(shared, rng);
    let multi = mp.score(&cols, shared);
    out.push_str(",\"cols\":[");
    for (c, ch) in col_hays.iter().enumerate() {
        if c > 0 {
            out.push(',');
        }
        out.push('[');
        for (k, a) in pattern.atoms.iter().enumerate() {
            if k > 0 {
                out.push(',');
            }
            let _ = write!(out, "{}", inner(a, &mut per_atom[k], ch).0);
        }
        out.push(']');
    }
    let _ = write!(out, "],\"multi\":{}", opt(multi));
    // match_list
    let nitems = if rng.gen_bool(0.1) { rng.gen_range(25..60) } else { rng.gen_range(0..12) };
    let mut texts: Vec<String> = (0..nitems).map(|_| if rng.gen_bool(0.3) { hay.clone() } else { gen_hay(rng) }).collect();
    if rng.gen_bool(0.3) && nitems > 2 {
        // duplicates make score ties, so stability is observable
        let d = texts[0].clone();
        texts[nitems - 1] = d;
    }
    out.push_str(",\"list\":{\"items\":[");
    for (p, t) in texts.iter().enumerate() {
        if p > 0 {
            out.push(',');
        }
        out.push('[');
        for (k, a) in pattern.atoms.iter().enumerate() {
            if k > 0 {
                out.push(',');
            }
            let _ = write!(out, "{}", inner(a, &mut per_atom[k], t).0);
        }
        out.push(']');
    }
    scramble(shared, rng);
    let res = pattern.match_list(texts.iter().enumerate().map(|(id, t)| Item { id, text: t.clone() }), shared);
    out.push_str("],\"out\":[");
    for (k, (it, s)) in res.iter().enumerate() {
        if k > 0 {
            out.push(',');
        }
        let _ = write!(out, "[{},{}]", it.id + 1, s);
    }
    out.push_str("]}");
    // Atom::match_list with one atom (sometimes an atom with an empty needle)
    let atom = if rng.gen_bool(0.1) || n == 0 {
        Atom::new("", case, norm, AtomKind::Fuzzy, true)
    } else {
        pattern.atoms[rng.gen_range(0..n)].clone()
    };
    let empty = atom.needle_text().is_empty();
    let mut am = Matcher::new(config.clone());
    let _ = write!(out, ",\"alist\":{{\"empty\":{},\"neg\":{},\"items\":", empty, atom.negative);
    let inn: Vec<i64> = texts.iter().map(|t| if empty { 0 } else { inner(&atom, &mut am, t).0 }).collect();
    out.push('[');
    for (k, v) in inn.iter().enumerate() {
        if k > 0 {
            out.push(',');
        }
        let _ = write!(out, "{}", v);
    }
    scramble(shared, rng);
    let res = atom.match_list(texts.iter().enumerate().map(|(id, t)| Item { id, text: t.clone() }), shared);
    out.push_str("],\"out\":[");
    for (k, (it, s)) in res.iter().enumerate() {
        if k > 0 {
            out.push(',');
        }
        let _ = write!(out, "[{},{}]", it.id + 1, s);
    }
    out.push_str("]}}");
    out
}

pub fn run(tier: &str, seed: u64, shards: usize, outdir: &str) {
    std::fs::create_dir_all(outdir).unwrap();
    let total: u64 = if tier == "thorough" { 400_000 } else { 40_000 };
    std::panic::set_hook(Box::new(|_| {}));
    let mut handles = Vec::new();
    for k in 0..shards {
        let path = format!("{}/shard-{:02}.ndjson", outdir, k);
        handles.push(std::thread::spawn(move || {
            let mut f = std::io::BufWriter::new(std::fs::File::create(&path).unwrap());
            let mut rng = StdRng::seed_from_u64(seed.wrapping_mul(1000).wrapping_add(k as u64));
            let config = if k % 2 == 0 { Config::DEFAULT } else { Config::DEFAULT.match_paths() };
            let mut shared = Matcher::new(config.clone());
            let mut n = 0u64;
            let mut id = k as u64;
            while id < total {
                let mut r2 = StdRng::seed_from_u64(rng.gen());
                let rec = std::panic::catch_unwind(std::panic::AssertUnwindSafe(|| record(id + 1, &mut r2, &mut shared, &config)));
                match rec {
                    Ok(r) => writeln!(f, "{}", r).unwrap(),
                    Err(_) => writeln!(f, "{{\"id\":{},\"panic\":true,\"atoms\":[],\"inner\":[],\"score\":-1,\"pre\":[],\"ind\":{{\"s\":-1,\"after\":[]}},\"perm\":[],\"pscore\":-1,\"pind\":[],\"cols\":[],\"multi\":-1,\"list\":{{\"items\":[],\"out\":[]}},\"alist\":{{\"empty\":true,\"neg\":false,\"items\":[],\"out\":[]}}}}", id + 1).unwrap(),
                }
                n += 1;
                id += shards as u64;
            }
            f.flush().unwrap();
            n
        }));
    }
    let mut recs = 0;
    for h in handles {
        recs += h.join().unwrap();
    }
    let _ = std::panic::take_hook();
    println!("{{\"records\":{},\"shards\":{}}}", recs, shards);
}
