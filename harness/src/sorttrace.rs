//! `sort-trace`: call records of the crate-private cancellable parallel sort (through the cfg-gated
//! facade) for spec/ParSort.tla (C18).  The comparison is the worker's: score descending, placeholders
//! (idx = -1) after real matches, then total length ascending, then index ascending.
use nucleo::verif::atomic::{AtomicBool, Ordering};
use rand::rngs::StdRng;
use rand::{Rng, SeedableRng};
use std::fmt::Write as _;
use std::io::Write as _;
use std::sync::atomic::AtomicU64;

#[derive(Clone, Copy, Debug, PartialEq)]
pub struct El {
    pub score: u32,
    pub len: u32,
    pub idx: i64, // -1 = placeholder
    pub id: u32,  // original position
}

pub fn is_less(a: &El, b: &El) -> bool {
    if a.score != b.score {
        return a.score > b.score;
    }
    if a.idx < 0 {
        return false;
    }
    if b.idx < 0 {
        return true;
    }
    if a.len == b.len {
        a.idx < b.idx
    } else {
        a.len < b.len
    }
}

pub fn key_len(p: u32) -> u32 {
    ((p % 97) * 31) % 17
}

/// score of position p for a generator family (mirrored by ParSort!GenScore)
pub fn gen_score(fam: &str, p: u32, n: u32, param: u32, seed: u32) -> u32 {
    match fam {
        "sorted" => n - p,
        "reversed" => p,
        "organ" => p.min(n - p),
        "saw" => p % param.max(1),
        "equal" => 7,
        "few" => ((p % 9973) * 7919 + seed % 10007) % 10007 % param.max(1),
        _ => ((p % 9973) * 7919 + seed % 10007) % 10007, // "random"
    }
}

pub fn generate(fam: &str, n: u32, param: u32, seed: u32, placeholders: bool) -> Vec<El> {
    (0..n)
        .map(|p| {
            let ph = placeholders && p % 11 == 3;
            El {
                score: if ph { 0 } else { gen_score(fam, p, n, param, seed) },
                len: key_len(p),
                idx: if ph { -1 } else { p as i64 },
                id: p,
            }
        })
        .collect()
}

/// McIlroy's adversary ("A killer adversary for quicksort"): builds, lazily and consistently, the total
/// order that makes this very sort run as badly as possible; returns the resulting key of every position.
fn antiquicksort(n: usize, rng: &mut StdRng) -> (Vec<u32>, bool) {
    use rand::seq::SliceRandom;
    let pool = rayon::ThreadPoolBuilder::new().num_threads(1).build().unwrap();
    let mut best: (Vec<u32>, bool) = (Vec::new(), false);
    // pattern-defeating quicksort shrugs the plain adversary off when it starts from the identity
    // arrangement (the slice looks sorted); randomise the start until the heapsort fallback is reached
    for _trial in 0..300 {
        let gas = n as u32;
        let st = std::sync::Mutex::new((vec![gas; n], 0u32, 0usize)); // (val, nsolid, candidate)
        let mut items: Vec<u32> = (0..n as u32).collect();
        items.shuffle(rng);
        let start = items.clone();
        let cmp = |a: &u32, b: &u32| -> bool {
            let mut s = st.lock().unwrap();
            let (x, y) = (*a as usize, *b as usize);
            if s.0[x] == gas && s.0[y] == gas {
                let ns = s.1;
                if x == s.2 {
                    s.0[x] = ns;
                } else {
                    s.0[y] = ns;
                }
                s.1 += 1;
            }
            if s.0[x] == gas {
                s.2 = x;
            } else if s.0[y] == gas {
                s.2 = y;
            }
            s.0[x] < s.0[y]
        };
        let flag = AtomicBool::new(false);
        let _ = nucleo::verif::take_counters();
        pool.install(|| {
            nucleo::verif::par_quicksort(&mut items, cmp, &flag);
        });
        let br = nucleo::verif::take_counters();
        let mut s = st.into_inner().unwrap();
        let mut next = s.1;
        for v in s.0.iter_mut() {
            if *v == gas {
                *v = next;
                next += 1;
            }
        }
        // key of the element at each start position
        let keys: Vec<u32> = start.iter().map(|&it| s.0[it as usize]).collect();
        let hit = br[1] > 0;
        if hit || best.0.is_empty() {
            best = (keys, hit);
        }
        if hit {
            break;
        }
    }
    best
}

pub struct Call {
    pub fam: String,
    pub n: u32,
    pub param: u32,
    pub seed: u32,
    pub placeholders: bool,
    pub threads: usize,
    pub raise_at: i64, // -1 never, 0 before the call, k > 0 at the k-th comparison
    pub explicit: Option<Vec<u32>>, // explicit scores (killer inputs)
}

pub fn run_call(id: u64, c: &Call, pools: &std::collections::HashMap<usize, rayon::ThreadPool>) -> String {
    let mut v: Vec<El> = match &c.explicit {
        Some(sc) => sc.iter().enumerate().map(|(p, &s)| El { score: s, len: key_len(p as u32), idx: p as i64, id: p as u32 }).collect(),
        None => generate(&c.fam, c.n, c.param, c.seed, c.placeholders),
    };
    let input = v.clone();
    let flag = AtomicBool::new(c.raise_at == 0);
    let calls = AtomicU64::new(0);
    let raised = std::sync::atomic::AtomicBool::new(c.raise_at == 0);
    let _ = nucleo::verif::take_counters();
    let pool = &pools[&c.threads];
    let res = std::panic::catch_unwind(std::panic::AssertUnwindSafe(|| {
        pool.install(|| {
            nucleo::verif::par_quicksort(
                &mut v,
                |a, b| {
                    let k = calls.fetch_add(1, std::sync::atomic::Ordering::Relaxed) + 1;
                    if c.raise_at > 0 && k as i64 == c.raise_at {
                        flag.store(true, Ordering::Relaxed);
                        raised.store(true, std::sync::atomic::Ordering::Relaxed);
                    }
                    is_less(a, b)
                },
                &flag,
            )
        })
    }));
    let br = nucleo::verif::take_counters();
    let mut out = String::new();
    let _ = write!(
        out,
        "{{\"id\":{},\"fam\":\"{}\",\"n\":{},\"param\":{},\"seed\":{},\"ph\":{},\"threads\":{},\"raise_at\":{},\"raised\":{},\"cmp_calls\":{},",
        id,
        c.fam,
        v.len(),
        c.param,
        c.seed,
        c.placeholders,
        c.threads,
        c.raise_at,
        raised.load(std::sync::atomic::Ordering::Relaxed),
        calls.load(std::sync::atomic::Ordering::Relaxed)
    );
    let explicit = c.explicit.is_some() || v.len() <= 3000;
    let _ = write!(out, "\"explicit\":{},\"keys\":[", explicit);
    if explicit {
        for (k, e) in input.iter().enumerate() {
            if k > 0 {
                out.push(',');
            }
            let _ = write!(out, "[{},{},{}]", e.score, e.len, e.idx);
        }
    }
    out.push_str("],\"branches\":[");
    for (k, b) in br.iter().take(10).enumerate() {
        if k > 0 {
            out.push(',');
        }
        let _ = write!(out, "{}", b);
    }
    match res {
        Ok(rep) => {
            let _ = write!(out, "],\"panic\":false,\"reported\":{},\"out\":[", rep);
            for (k, e) in v.iter().enumerate() {
                if k > 0 {
                    out.push(',');
                }
                let _ = write!(out, "{}", e.id);
            }
            out.push_str("]}");
        }
        Err(_) => out.push_str("],\"panic\":true,\"reported\":false,\"out\":[]}"),
    }
    out
}

pub fn run(tier: &str, seed: u64, shards: usize, outdir: &str) {
    std::fs::create_dir_all(outdir).unwrap();
    let thorough = tier == "thorough";
    let mut rng = StdRng::seed_from_u64(seed ^ 0x51);
    let mut calls: Vec<Call> = Vec::new();
    let fams = ["sorted", "reversed", "organ", "saw", "equal", "few", "random"];
    let mk = |fam: &str, n: u32, param: u32, seed: u32, ph: bool, threads: usize, raise_at: i64| Call {
        fam: fam.to_string(),
        n,
        param,
        seed,
        placeholders: ph,
        threads,
        raise_at,
        explicit: None,
    };
    // small lengths exhaustively
    for n in 0..=64u32 {
        for fam in fams {
            for &t in &[1usize, 4] {
                calls.push(mk(fam, n, 3, n, n % 2 == 0, t, -1));
            }
        }
    }
    // medium and large
    let mut sizes: Vec<u32> = vec![100, 257, 1000, 2001, 4100, 5000, 20_000, 50_000];
    if thorough {
        sizes.extend([8200, 100_000, 300_000]);
    }
    for &n in &sizes {
        for fam in fams {
            for &t in &[1usize, 2, 4, 8] {
                let param = if fam == "few" { 2 + (n % 2) } else if fam == "saw" { 10 + n % 50 } else { 3 };
                calls.push(mk(fam, n, param, rng.gen_range(0..10000), fam == "random", t, -1));
            }
        }
    }
    // killer inputs (force the heapsort / pattern breaking branches)
    let killer_sizes: Vec<usize> = if thorough { vec![50, 64, 100, 257, 500, 1000, 1500, 2000, 2001, 3000] } else { vec![50, 64, 257, 500, 1000, 2000] };
    for n in killer_sizes {
        let (keys, _reached_heapsort) = antiquicksort(n, &mut rng);
        for &t in &[1usize, 4] {
            // our comparator sorts by descending score: feed the adversary's keys inverted and as they are
            for inv in [false, true] {
                let sc: Vec<u32> = keys.iter().map(|&k| if inv { n as u32 - k } else { k }).collect();
                calls.push(Call { fam: "killer".into(), n: n as u32, param: inv as u32, seed: 0, placeholders: false, threads: t, raise_at: -1, explicit: Some(sc) });
            }
        }
    }
    // cancellation: flag raised before the call / at the k-th comparison (geometric grid + random)
    let csizes: Vec<u32> = if thorough { vec![30, 1000, 5000, 20_000, 100_000] } else { vec![30, 1000, 5000, 20_000] };
    for &n in &csizes {
        for &t in &[1usize, 4, 8] {
            calls.push(mk("random", n, 3, 1, false, t, 0));
            let mut k: i64 = 1;
            while k < (n as i64) * 20 {
                calls.push(mk("random", n, 3, k as u32, false, t, k));
                calls.push(mk("few", n, 3, k as u32, true, t, k + rng.gen_range(0..k.max(2))));
                k = k * 3 + 1;
            }
        }
    }
    let pools: std::collections::HashMap<usize, rayon::ThreadPool> =
        [1usize, 2, 4, 8].iter().map(|&t| (t, rayon::ThreadPoolBuilder::new().num_threads(t).build().unwrap())).collect();
    std::panic::set_hook(Box::new(|_| {}));
    let mut files: Vec<std::io::BufWriter<std::fs::File>> = (0..shards)
        .map(|k| std::io::BufWriter::new(std::fs::File::create(format!("{}/shard-{:02}.ndjson", outdir, k)).unwrap()))
        .collect();
    let mut bytes = vec![0usize; shards];
    for (k, c) in calls.iter().enumerate() {
        let rec = run_call(k as u64 + 1, c, &pools);
        // balance shards by size
        let s = (0..shards).min_by_key(|&s| bytes[s]).unwrap();
        bytes[s] += rec.len();
        writeln!(files[s], "{}", rec).unwrap();
    }
    for f in files.iter_mut() {
        f.flush().unwrap();
    }
    let _ = std::panic::take_hook();
    println!("{{\"records\":{},\"shards\":{}}}", calls.len(), shards);
}
