//! `chars-dump`: the complete graph of the three public character maps over all 1,112,064 Unicode scalar
//! values, plus the observable disagreements between the matcher's internal normalisation routines, for
//! spec/CharsCheck.tla (C16).
//!
//! Probes (each against the expected normal form n = Norm(c, cfg) computed from the public maps, all on
//! code-point haystacks so the non-ASCII code paths run):
//!   1 equal-length comparison            exact_match([c], [n])                  (Char::normalize)
//!   2 one-character best-position search fuzzy_match([c, F], [n])               (prefilter + char_class_and_normalize)
//!   3 optimal matrix set-up              fuzzy_match([c, F, z], [n, z])         (prefilter + matrix setup)
//!   4 greedy scoring walk                fuzzy_indices_greedy([z, c, F], [z, n]) (normalize + calculate_score)
//!   5 substring scan                     substring_match([F, c, z], [n, z])     (substring_match_non_ascii)
//! where F is a filler that never normalises to anything else.  A probe "agrees" iff it reports the match.
//! Probes 6-10 are the same five shapes on byte (ASCII-representation) haystacks and needles, for ASCII c
//! (the AsciiChar routines); probes 11-15 put a byte needle against the code-point haystack whenever the
//! normal form is ASCII (the mixed-representation comparisons).
use crate::mtrace::{make_config, norm_char, Cfg};
use nucleo_matcher::{Matcher, Utf32Str};
use std::io::Write;

const FILLER: char = '\u{1}';

pub fn probe(m: &mut Matcher, k: u32, c: char, n: char) -> bool {
    let z = if n == '~' { '^' } else { '~' };
    if k > 5 {
        // byte representations: haystack as bytes for 6-10, needle as bytes for 6-15
        let shape = (k - 1) % 5 + 1;
        let (hs, ns): (Vec<char>, Vec<char>) = match shape {
            1 => (vec![c], vec![n]),
            2 => (vec![c, FILLER], vec![n]),
            3 => (vec![c, FILLER, z], vec![n, z]),
            4 => (vec![z, c, FILLER], vec![z, n]),
            _ => (vec![FILLER, c, z], vec![n, z]),
        };
        let hstr: String = hs.iter().collect();
        let nstr: String = ns.iter().collect();
        let hay = if k <= 10 { Utf32Str::Ascii(hstr.as_bytes()) } else { Utf32Str::Unicode(&hs) };
        let needle = Utf32Str::Ascii(nstr.as_bytes());
        return match shape {
            1 => m.exact_match(hay, needle).is_some(),
            2 => m.fuzzy_match(hay, needle).map_or(false, |s| s >= 16),
            3 => m.fuzzy_match(hay, needle).is_some(),
            4 => {
                let mut idx = Vec::new();
                let r = m.fuzzy_indices_greedy(hay, needle, &mut idx);
                r.is_some() && idx == [0, 1]
            }
            _ => m.substring_match(hay, needle).is_some(),
        };
    }
    match k {
        1 => m.exact_match(Utf32Str::Unicode(&[c]), Utf32Str::Unicode(&[n])).is_some(),
        2 => m
            .fuzzy_match(Utf32Str::Unicode(&[c, FILLER]), Utf32Str::Unicode(&[n]))
            .map_or(false, |s| s >= 16),
        3 => m
            .fuzzy_match(Utf32Str::Unicode(&[c, FILLER, z]), Utf32Str::Unicode(&[n, z]))
            .is_some(),
        4 => {
            let mut idx = Vec::new();
            let r = m.fuzzy_indices_greedy(Utf32Str::Unicode(&[z, c, FILLER]), Utf32Str::Unicode(&[z, n]), &mut idx);
            r.is_some() && idx == [0, 1]
        }
        5 => m
            .substring_match(Utf32Str::Unicode(&[FILLER, c, z]), Utf32Str::Unicode(&[n, z]))
            .is_some(),
        _ => unreachable!(),
    }
}

pub fn run(out: &str) {
    let mut f = std::io::BufWriter::new(std::fs::File::create(out).unwrap());
    let mut scanned = 0u64;
    let (mut idn, mut idf, mut ups, mut probes, mut dis) = (0u64, 0u64, 0u64, 0u64, 0u64);
    let mut matchers: Vec<(Cfg, Matcher)> = Vec::new();
    for ic in [false, true] {
        for nz in [false, true] {
            let cfg = Cfg { ic, nz, paths: false };
            matchers.push((cfg, Matcher::new(make_config(cfg, false))));
        }
    }
    for cp in 0..=0x10FFFFu32 {
        let Some(c) = char::from_u32(cp) else { continue };
        scanned += 1;
        let n = nucleo_matcher::chars::normalize(c);
        if n != c {
            writeln!(f, "{{\"ev\":\"N\",\"c\":{},\"to\":{}}}", cp, n as u32).unwrap();
        } else {
            idn += 1;
        }
        let l = nucleo_matcher::chars::to_lower_case(c);
        if l != c {
            writeln!(f, "{{\"ev\":\"F\",\"c\":{},\"to\":{}}}", cp, l as u32).unwrap();
        } else {
            idf += 1;
        }
        if nucleo_matcher::chars::is_upper_case(c) {
            writeln!(f, "{{\"ev\":\"U\",\"c\":{}}}", cp).unwrap();
            ups += 1;
        }
        if c == FILLER || c == '~' || c == '^' {
            continue;
        }
        for (cfg, m) in matchers.iter_mut() {
            let n = norm_char(c, *cfg);
            if norm_char(n, *cfg) != n {
                // the composite map is not idempotent here: no pre-normalised needle can denote n, the
                // probes' precondition does not hold.  Reported as data; CharsCheck judges it.
                writeln!(f, "{{\"ev\":\"X\",\"ic\":{},\"nz\":{},\"c\":{},\"n\":{},\"nn\":{}}}", cfg.ic, cfg.nz, cp, n as u32, norm_char(n, *cfg) as u32).unwrap();
                continue;
            }
            for k in 1..=15 {
                if (k > 5 && !n.is_ascii()) || ((6..=10).contains(&k) && !c.is_ascii()) {
                    continue;
                }
                probes += 1;
                let ok = std::panic::catch_unwind(std::panic::AssertUnwindSafe(|| probe(m, k, c, n))).unwrap_or(false);
                if !ok {
                    dis += 1;
                    writeln!(f, "{{\"ev\":\"D\",\"ic\":{},\"nz\":{},\"c\":{},\"n\":{},\"probe\":{}}}", cfg.ic, cfg.nz, cp, n as u32, k).unwrap();
                }
            }
        }
    }
    writeln!(
        f,
        "{{\"ev\":\"END\",\"scanned\":{},\"ident_n\":{},\"ident_f\":{},\"upper\":{},\"probes\":{},\"disagreements\":{}}}",
        scanned, idn, idf, ups, probes, dis
    )
    .unwrap();
    println!("{{\"scanned\":{},\"probes\":{},\"disagreements\":{}}}", scanned, probes, dis);
}
