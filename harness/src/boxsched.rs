//! `boxcar-sched`: schedule exploration of the real lock-free vector (through the cfg-gated facade) under
//! the controlled scheduler; one ndjson trace per run for spec/BoxcarTrace.tla and spec/MemModel.tla
//! (C08, C09, C11).
use crate::sched::{set_role, Policy, Sched, SinkRef};
use nucleo::verif::BoxcarVec;
use nucleo::Utf32String;
use rand::rngs::StdRng;
use rand::seq::SliceRandom;
use rand::{Rng, SeedableRng};
use std::fmt::Write as _;
use std::io::Write as _;
use std::sync::{Arc, Mutex};

pub static DROPS: Mutex<Vec<u64>> = Mutex::new(Vec::new());

pub struct Payload(pub u64);
impl Drop for Payload {
    fn drop(&mut self) {
        DROPS.lock().unwrap().push(self.0);
    }
}

#[derive(Clone, Debug)]
pub enum Op {
    Push(u64),
    /// values, reported length
    Extend(Vec<u64>, usize),
    Get(u32),
    Count,
    Snapshot(u32),
    /// push whose fill callback panics
    PushPanic(u64),
    /// extend whose fill callback panics at the k-th element
    ExtendPanic(Vec<u64>, usize),
    /// extend with an (empty) iterator that reports a length that exhausts the index space
    ExtendHuge,
    /// push that may be refused (the documented capacity panic once the index space is exhausted)
    PushChecked(u64),
}

#[derive(Clone, Debug)]
pub struct Scenario {
    pub name: String,
    pub capacity: u32,
    pub cols: u32,
    pub prefill: u32,
    /// a batch appended by the main thread after the prefill (lets a reservation end exactly on a bucket boundary)
    pub pre_extend: u32,
    /// indices reserved (and never written) by the main thread before the threads start, through an iterator that
    /// reports this length and yields nothing: puts the next index deep into a big, not yet allocated bucket
    pub pre_reserve: u32,
    pub threads: Vec<Vec<Op>>,
}

struct LyingIter {
    vals: std::vec::IntoIter<Payload>,
    reported: usize,
}
impl Iterator for LyingIter {
    type Item = Payload;
    fn next(&mut self) -> Option<Payload> {
        self.vals.next()
    }
}
impl ExactSizeIterator for LyingIter {
    fn len(&self) -> usize {
        self.reported
    }
}

fn col_text(id: u64, k: usize) -> String {
    format!("v{}c{}", id, k)
}

fn fill(v: &Payload, cols: &mut [Utf32String]) {
    for (k, c) in cols.iter_mut().enumerate() {
        *c = Utf32String::from(col_text(v.0, k).as_str());
    }
}

fn item_json(it: Option<nucleo::Item<'_, Payload>>) -> String {
    match it {
        None => "{\"some\":false,\"v\":0,\"cols_ok\":true}".to_string(),
        Some(it) => {
            let ok = it.matcher_columns.iter().enumerate().all(|(k, c)| c.to_string() == col_text(it.data.0, k));
            format!("{{\"some\":true,\"v\":{},\"cols_ok\":{}}}", it.data.0, ok)
        }
    }
}

fn run_op(vec: &BoxcarVec<Payload>, s: &Sched, op: &Op) {
    match op {
        Op::Push(v) => {
            s.user("call", format!("\"api\":\"push\",\"v\":{}", v));
            let idx = vec.push(Payload(*v), fill);
            s.user("ret", format!("\"api\":\"push\",\"v\":{},\"idx\":{}", v, idx));
        }
        Op::PushPanic(v) => {
            s.user("call", format!("\"api\":\"push_panic\",\"v\":{}", v));
            let r = std::panic::catch_unwind(std::panic::AssertUnwindSafe(|| vec.push(Payload(*v), |_, _| panic!("fill"))));
            s.user("ret", format!("\"api\":\"push_panic\",\"v\":{},\"panicked\":{}", v, r.is_err()));
        }
        Op::Extend(vals, reported) => {
            s.user("call", format!("\"api\":\"extend\",\"vals\":{:?},\"reported\":{}", vals, reported));
            let it = LyingIter { vals: vals.iter().map(|&v| Payload(v)).collect::<Vec<_>>().into_iter(), reported: *reported };
            let r = std::panic::catch_unwind(std::panic::AssertUnwindSafe(|| vec.extend(it, fill)));
            s.user("ret", format!("\"api\":\"extend\",\"vals\":{:?},\"reported\":{},\"panicked\":{}", vals, reported, r.is_err()));
        }
        Op::ExtendPanic(vals, at) => {
            s.user("call", format!("\"api\":\"extend_panic\",\"vals\":{:?},\"reported\":{},\"at\":{}", vals, vals.len(), at));
            let it = LyingIter { vals: vals.iter().map(|&v| Payload(v)).collect::<Vec<_>>().into_iter(), reported: vals.len() };
            let bad = vals[*at];
            let r = std::panic::catch_unwind(std::panic::AssertUnwindSafe(|| {
                vec.extend(it, |v, c| {
                    if v.0 == bad {
                        panic!("fill")
                    }
                    fill(v, c)
                })
            }));
            s.user("ret", format!("\"api\":\"extend_panic\",\"vals\":{:?},\"at\":{},\"panicked\":{}", vals, at, r.is_err()));
        }
        Op::ExtendHuge => {
            s.user("call", "\"api\":\"extend_huge\"".to_string());
            let it = LyingIter { vals: Vec::new().into_iter(), reported: u32::MAX as usize };
            let r = std::panic::catch_unwind(std::panic::AssertUnwindSafe(|| vec.extend(it, fill)));
            s.user("ret", format!("\"api\":\"extend_huge\",\"panicked\":{}", r.is_err()));
        }
        Op::PushChecked(v) => {
            s.user("call", format!("\"api\":\"push_checked\",\"v\":{}", v));
            let r = std::panic::catch_unwind(std::panic::AssertUnwindSafe(|| vec.push(Payload(*v), fill)));
            match r {
                Ok(idx) => s.user("ret", format!("\"api\":\"push_checked\",\"v\":{},\"panicked\":false,\"idx\":{}", v, idx)),
                Err(_) => s.user("ret", format!("\"api\":\"push_checked\",\"v\":{},\"panicked\":true,\"idx\":-1", v)),
            }
        }
        Op::Get(i) => {
            s.user("call", format!("\"api\":\"get\",\"idx\":{}", i));
            let r = item_json(vec.get(*i));
            s.user("ret", format!("\"api\":\"get\",\"idx\":{},\"res\":{}", i, r));
        }
        Op::Count => {
            s.user("call", "\"api\":\"count\"".to_string());
            let c = vec.count();
            // (TLC integers are 32 bit; only the capacity-exhausted scenario gets near)
            s.user("ret", format!("\"api\":\"count\",\"res\":{}", c.min(2_000_000_000)));
        }
        Op::Snapshot(start) => {
            s.user("call", format!("\"api\":\"snapshot\",\"start\":{}", start));
            let r = std::panic::catch_unwind(std::panic::AssertUnwindSafe(|| {
                let items = vec.snapshot(*start);
                let mut out = String::from("[");
                for (k, (idx, it)) in items.into_iter().enumerate() {
                    if k > 0 {
                        out.push(',');
                    }
                    let _ = write!(out, "[{},{}]", idx, item_json(it));
                }
                out.push(']');
                out
            }));
            match r {
                Ok(items) => s.user("ret", format!("\"api\":\"snapshot\",\"start\":{},\"panicked\":false,\"items\":{}", start, items)),
                Err(_) => s.user("ret", format!("\"api\":\"snapshot\",\"start\":{},\"panicked\":true,\"items\":[]", start)),
            }
        }
    }
}

struct Region {
    id: usize,
    base: usize,
    len: u64,
    esz: u64,
}

/// Turns the raw log into ndjson lines with symbolic locations.
pub fn render(log: &[crate::sched::Logged], addrs: &[(String, usize, usize, usize)], named: &[(String, usize)], out: &mut Vec<String>) {
    let mut regions: Vec<Region> = Vec::new();
    for l in log {
        let e = &l.ev;
        let mut s = String::new();
        let _ = write!(s, "{{\"seq\":{},\"tid\":{},\"role\":\"{}\",\"site\":\"{}\"", l.seq, l.tid, l.role, e.site);
        let entry_of = |regions: &Vec<Region>, addr: usize| -> Option<(u64, u64, bool)> {
            // (bucket, global index, is the address the start of an entry)
            for r in regions.iter().rev() {
                if addr >= r.base && (addr as u64) < r.base as u64 + r.len * r.esz {
                    let off = (addr - r.base) as u64;
                    let b = (r.len / 32).trailing_zeros() as u64;
                    return Some((b, r.len - 32 + off / r.esz, off % r.esz == 0));
                }
            }
            None
        };
        if e.site == "atomic" {
            let mut loc = "other".to_string();
            let mut extra = String::new();
            for (n, a) in named {
                if *a == e.addr {
                    loc = n.clone();
                }
            }
            for (vn, infl, bbase, nb) in addrs {
                if e.addr == *infl {
                    loc = "inflight".into();
                    let _ = write!(extra, ",\"vec\":\"{}\"", vn);
                } else if e.addr >= *bbase && e.addr < *bbase + nb * 8 {
                    loc = "bucket".into();
                    let _ = write!(extra, ",\"vec\":\"{}\",\"b\":{}", vn, (e.addr - bbase) / 8);
                }
            }
            if loc == "other" {
                if let Some((b, i, start)) = entry_of(&regions, e.addr) {
                    if start {
                        loc = "active".into();
                        let _ = write!(extra, ",\"b\":{},\"i\":{},\"base\":{}", b, i, regions.iter().rev().find(|r| e.addr >= r.base && (e.addr as u64) < r.base as u64 + r.len * r.esz).unwrap().id);
                    }
                }
            }
            let _ = write!(
                s,
                ",\"loc\":\"{}\"{},\"op\":\"{}\",\"ord\":\"{}\",\"ordf\":\"{}\",\"val\":{},\"ok\":{},\"arg\":{},\"file\":\"{}\"",
                loc,
                extra,
                e.op,
                e.ord,
                e.ord_fail,
                if loc == "bucket" { (e.val != 0) as u64 } else { e.val.min(2_000_000_000) },
                e.ok,
                if loc == "bucket" { regions.iter().rev().find(|r| r.base as u64 == e.args[0]).map_or(0, |r| r.id as u64) } else { e.args[0].min(2_000_000_000) },
                e.file.rsplit('/').next().unwrap_or("")
            );
            if loc == "bucket" {
                let rid = regions.iter().rev().find(|r| r.base as u64 == e.val).map_or(0, |r| r.id);
                let _ = write!(s, ",\"ptr\":{}", rid);
            }
        } else if e.site == "bucket.alloc" {
            let rid = regions.len() + 1;
            regions.push(Region { id: rid, base: e.addr, len: e.args[0], esz: e.args[1] });
            let _ = write!(s, ",\"base\":{},\"b\":{},\"len\":{}", rid, (e.args[0] / 32).trailing_zeros(), e.args[0]);
        } else if e.site == "bucket.dealloc" {
            let rid = regions.iter().rev().find(|r| r.base == e.addr).map_or(0, |r| r.id);
            let _ = write!(s, ",\"base\":{},\"b\":{},\"len\":{}", rid, (e.args[0] / 32).trailing_zeros(), e.args[0]);
        } else if e.site.starts_with("entry.") {
            match entry_of(&regions, e.addr) {
                Some((b, i, _)) => {
                    let base = regions.iter().rev().find(|r| e.addr >= r.base && (e.addr as u64) < r.base as u64 + r.len * r.esz).unwrap().id;
                    let _ = write!(s, ",\"b\":{},\"i\":{},\"base\":{}", b, i, base);
                }
                None => {
                    let _ = write!(s, ",\"b\":-1,\"i\":-1,\"base\":0");
                }
            }
        } else if let Some(u) = &l.user {
            if !u.is_empty() {
                let _ = write!(s, ",{}", u);
            }
        } else {
            let _ = write!(s, ",\"a\":[{},{},{},{}]", e.args[0], e.args[1], e.args[2], e.args[3]);
        }
        s.push('}');
        out.push(s);
        if e.site == "bucket.dealloc" {
            // keep the region (later events may still refer to it: that is what a use-after-free looks like)
        }
    }
}

pub fn run_scenario(sc: &Scenario, policy: Policy, run_id: u64, lines: &mut Vec<String>, starve: Option<&str>) {
    DROPS.lock().unwrap().clear();
    let sched = Sched::new(policy.clone());
    sched.starve(starve);
    nucleo::verif::install(Box::new(SinkRef(sched.clone())));
    set_role("main");
    sched.user("reset", format!("\"run\":{},\"scenario\":\"{}\",\"capacity\":{},\"cols\":{},\"prefill\":{},\"nthreads\":{}", run_id, sc.name, sc.capacity, sc.cols, sc.prefill, sc.threads.len()));
    let vec = Arc::new(BoxcarVec::<Payload>::with_capacity(sc.capacity, sc.cols));
    let addrs = vec.addrs();
    for p in 0..sc.prefill {
        run_op(&vec, &sched, &Op::Push(1000 + p as u64));
    }
    if sc.pre_extend > 0 {
        let vals: Vec<u64> = (0..sc.pre_extend as u64).map(|k| 5000 + k).collect();
        let n = vals.len();
        run_op(&vec, &sched, &Op::Extend(vals, n));
    }
    if sc.pre_reserve > 0 {
        run_op(&vec, &sched, &Op::Extend(Vec::new(), sc.pre_reserve as usize));
    }
    sched.user("start", String::new());
    let mut handles = Vec::new();
    for (k, ops) in sc.threads.iter().enumerate() {
        let vec = vec.clone();
        let sched2 = sched.clone();
        let ops = ops.clone();
        handles.push(std::thread::spawn(move || {
            set_role(&format!("w{}", k + 1));
            for op in &ops {
                run_op(&vec, &sched2, op);
            }
            sched2.thread_done();
        }));
    }
    sched.thread_blocked(true);
    for h in handles {
        let _ = h.join();
    }
    sched.thread_blocked(false);
    // final read-back by the main thread: index -> value for everything that was published
    sched.user("joined", String::new());
    run_op(&vec, &sched, &Op::Count);
    // (a block reserved by the main thread and never written holds nothing to read back)
    let n = if sc.pre_reserve > 0 { 0 } else { vec.count().min(400) };
    for i in 0..n {
        run_op(&vec, &sched, &Op::Get(i));
    }
    if sc.pre_reserve > 0 {
        // the indices behind the reserved block
        for i in sc.pre_reserve..vec.count().min(sc.pre_reserve + 64) {
            run_op(&vec, &sched, &Op::Get(i));
        }
    }
    sched.user("call", "\"api\":\"drop_vec\"".to_string());
    let before: Vec<u64> = DROPS.lock().unwrap().clone();
    drop(vec);
    let after: Vec<u64> = DROPS.lock().unwrap().clone();
    sched.user("ret", format!("\"api\":\"drop_vec\",\"dropped_before\":{:?},\"dropped_by_vec\":{:?}", before, &after[before.len()..]));
    sched.user("end", String::new());
    nucleo::verif::uninstall();
    let (log, _decisions, _fail) = sched.finish();
    render(&log, &[("v".to_string(), addrs.0, addrs.1, addrs.2)], &[], lines);
}

/// Memory balance of a vector whose items have no drop glue (and, as a control, of one whose items do): everything
/// the vector allocated - buckets and the matcher columns of every published entry - must be released by its drop.
/// Runs without the scheduler and without logging in between, so that the process-wide live-byte count is exact.
pub fn memory_balance(run_id: u64, n: u32, cols: u32, plain: bool, lines: &mut Vec<String>) {
    nucleo::verif::uninstall();
    let text = |v: u64, k: usize| format!("plain item {} column {} with a heap allocated text", v, k);
    let before = crate::alloc_count::live();
    let mid;
    if plain {
        let vec = BoxcarVec::<u64>::with_capacity(8, cols);
        for v in 0..n as u64 {
            vec.push(v, |x, c| {
                for (k, col) in c.iter_mut().enumerate() {
                    *col = Utf32String::from(text(*x, k).as_str());
                }
            });
        }
        vec.extend((0..7u64).map(|x| x + 1_000_000).collect::<Vec<_>>().into_iter(), |x, c| {
            for (k, col) in c.iter_mut().enumerate() {
                *col = Utf32String::from(text(*x, k).as_str());
            }
        });
        mid = crate::alloc_count::live();
        drop(vec);
    } else {
        let vec = BoxcarVec::<String>::with_capacity(8, cols);
        for v in 0..n as u64 {
            vec.push(format!("owned {}", v), |x, c| {
                for (k, col) in c.iter_mut().enumerate() {
                    *col = Utf32String::from(format!("{} {}", x, k).as_str());
                }
            });
        }
        mid = crate::alloc_count::live();
        drop(vec);
    }
    let after = crate::alloc_count::live();
    lines.push(format!(
        "{{\"seq\":1,\"tid\":0,\"role\":\"main\",\"site\":\"reset\",\"run\":{},\"scenario\":\"memory-balance-{}\",\"capacity\":8,\"cols\":{},\"prefill\":0,\"nthreads\":0}}",
        run_id,
        if plain { "plain-items" } else { "owned-items" },
        cols
    ));
    lines.push("{\"seq\":2,\"tid\":0,\"role\":\"main\",\"site\":\"start\"}".to_string());
    lines.push(format!("{{\"seq\":3,\"tid\":0,\"role\":\"main\",\"site\":\"call\",\"api\":\"mem_balance\",\"items\":{},\"plain\":{}}}", n + 7 * plain as u32, plain));
    lines.push(format!(
        "{{\"seq\":4,\"tid\":0,\"role\":\"main\",\"site\":\"ret\",\"api\":\"mem_balance\",\"held_while_alive\":{},\"held_after_drop\":{}}}",
        mid - before,
        after - before
    ));
}

fn scenarios(thorough: bool, rng: &mut StdRng) -> Vec<Scenario> {
    let mut v = Vec::new();
    let s = |name: &str, cap: u32, cols: u32, prefill: u32, threads: Vec<Vec<Op>>| Scenario { name: name.into(), capacity: cap, cols, prefill, pre_extend: 0, pre_reserve: 0, threads };
    use Op::*;
    v.push(s("push-push", 0, 1, 0, vec![vec![Push(1)], vec![Push(2)]]));
    v.push(s("push-get", 0, 1, 0, vec![vec![Push(1), Push(2)], vec![Get(0), Get(1), Get(0)]]));
    v.push(s("push-get-2col", 0, 2, 0, vec![vec![Push(1)], vec![Get(0), Get(0), Count]]));
    v.push(s("extend-push", 0, 1, 0, vec![vec![Extend(vec![1, 2, 3], 3)], vec![Push(4), Get(1)]]));
    v.push(s("extend-extend", 0, 1, 0, vec![vec![Extend(vec![1, 2], 2)], vec![Extend(vec![3, 4, 5], 3), Count]]));
    v.push(s("boundary-push", 0, 1, 30, vec![vec![Push(1), Push(2)], vec![Push(3), Push(4)]]));
    v.push(s("boundary-eager", 0, 1, 27, vec![vec![Push(1), Push(2)], vec![Push(3), Get(28)]]));
    v.push(s("boundary-extend", 0, 1, 29, vec![vec![Extend(vec![1, 2, 3, 4, 5], 5)], vec![Push(6), Get(31), Get(33)]]));
    v.push(s("boundary-extend-get", 0, 2, 31, vec![vec![Extend(vec![1, 2, 3], 3)], vec![Get(32), Get(33), Snapshot(30)]]));
    v.push(s("short-iter", 0, 1, 0, vec![vec![Extend(vec![1, 2], 4)], vec![Push(5), Get(2), Get(3)]]));
    v.push(s("long-iter", 0, 1, 0, vec![vec![Extend(vec![1, 2, 3], 2)], vec![Push(5), Get(2)]]));
    v.push(s("zero-iter", 0, 1, 0, vec![vec![Extend(vec![1], 0)], vec![Push(5)]]));
    v.push(s("short-iter-boundary", 0, 1, 30, vec![vec![Extend(vec![1], 40)], vec![Push(5), Push(6)]]));
    v.push(s("lazy-bucket-get", 0, 1, 20, vec![vec![Extend((1..=15).collect(), 15)], vec![Get(32), Get(33), Snapshot(30), Get(32)]]));
    v.push(s("lazy-bucket-push-get", 0, 2, 20, vec![vec![Extend((1..=11).collect(), 11), Push(50), Push(51)], vec![Get(32), Get(31), Get(32), Count]]));
    v.push(s("skip-bucket", 0, 1, 20, vec![vec![Extend(vec![1], 110), Push(7)], vec![Get(130), Get(20)]]));
    // several threads meet at a big bucket nobody has allocated (initialising 2^20 entries takes long enough for the
    // loser of the allocation race to finish its push): the push of the loser must stay visible
    let n0 = 32 * ((1u32 << 15) - 1) + 3 * (1u32 << 18);
    let mut b = s("big-bucket-race", 0, 1, 0, vec![vec![Push(1), Get(n0), Get(n0 + 1), Get(n0 + 2)], vec![Push(2), Get(n0), Get(n0 + 1), Get(n0 + 2)], vec![Push(3), Get(n0 + 2), Get(n0 + 1), Get(n0)]]);
    b.pre_reserve = n0;
    v.push(b);
    // the index space is exhausted by a batch that reports an absurd length (and is refused after it has reserved the
    // indices): every later push has to be refused too, none may be handed an index that is already in use
    v.push(s("capacity-exhausted", 0, 1, 3, vec![vec![ExtendHuge, PushChecked(1), PushChecked(2)], vec![PushChecked(3), Get(0), Get(1)]]));
    // a batch that ends exactly on a bucket boundary bypasses the eager allocation: two pushes then race to
    // allocate the same bucket
    let mut b = s("alloc-race", 0, 1, 20, vec![vec![Push(1), Get(32), Get(33)], vec![Push(2), Get(33), Get(32)]]);
    b.pre_extend = 12;
    v.push(b);
    let mut b = s("alloc-race-3", 0, 2, 20, vec![vec![Push(1), Get(32)], vec![Push(2), Get(33)], vec![Extend(vec![3, 4], 2), Get(34), Count]]);
    b.pre_extend = 12;
    v.push(b);
    // a batch that triggers the eager allocation of the next bucket while another thread allocates it lazily
    v.push(s("eager-race", 0, 1, 20, vec![vec![Extend((1..=10).collect(), 10), Get(32)], vec![Push(11), Push(12), Push(13), Get(32), Get(33)]]));
    v.push(s("eager-race-2", 0, 1, 22, vec![vec![Extend((1..=8).collect(), 8), Count], vec![Push(11), Push(12), Push(13), Push(14), Get(32), Get(33)]]));
    // a batch that crosses a bucket boundary and ends in the last eighth of its last bucket
    v.push(s("eager-cross", 0, 1, 20, vec![vec![Extend((1..=70).collect(), 70)], vec![Push(100), Get(89), Count]]));
    v.push(s("panic-push", 0, 1, 0, vec![vec![PushPanic(1), Push(2)], vec![Push(3), Get(0)]]));
    v.push(s("panic-extend", 0, 1, 0, vec![vec![ExtendPanic(vec![1, 2, 3], 1)], vec![Push(4), Get(0), Get(1)]]));
    v.push(s("count-snapshot", 0, 1, 2, vec![vec![Push(1), Push(2)], vec![Count, Snapshot(0), Count]]));
    v.push(s("three-writers", 0, 1, 30, vec![vec![Push(1), Push(2)], vec![Extend(vec![3, 4, 5], 3)], vec![Get(31), Count, Get(32)]]));
    v.push(s("capacity-64", 64, 1, 94, vec![vec![Push(1), Push(2)], vec![Push(3), Get(95), Get(96)]]));
    let n = if thorough { 60 } else { 12 };
    for k in 0..n {
        let nt = rng.gen_range(2..=3);
        let prefill = *[0u32, 0, 26, 28, 30, 31].choose(rng).unwrap();
        let mut next = 1u64;
        let mut threads = Vec::new();
        for _ in 0..nt {
            let mut ops = Vec::new();
            for _ in 0..rng.gen_range(1..=3) {
                let op = match rng.gen_range(0..10) {
                    0..=2 => {
                        next += 1;
                        Push(next)
                    }
                    3..=4 => {
                        let l: usize = rng.gen_range(1..=4);
                        let vals: Vec<u64> = (0..l).map(|_| {
                            next += 1;
                            next
                        }).collect();
                        let rep = match rng.gen_range(0..6) {
                            0 => l + 2,
                            1 => l.saturating_sub(1),
                            _ => l,
                        };
                        Extend(vals, rep)
                    }
                    5..=7 => Get(prefill + rng.gen_range(0..5)),
                    8 => Count,
                    _ => Snapshot(prefill.saturating_sub(1)),
                };
                ops.push(op);
            }
            threads.push(ops);
        }
        let mut sc = s(&format!("random-{}", k), if rng.gen_bool(0.2) { 40 } else { 0 }, rng.gen_range(1..=2), prefill, threads);
        if prefill == 0 && rng.gen_bool(0.3) {
            sc.prefill = 20;
            sc.pre_extend = 12;
        }
        v.push(sc);
    }
    v
}

pub fn run(tier: &str, seed: u64, shards: usize, outdir: &str, only: Option<&str>, shard_sel: Option<usize>, from: u64) {
    std::fs::create_dir_all(outdir).unwrap();
    let thorough = tier == "thorough";
    let mut rng = StdRng::seed_from_u64(seed ^ 0xB0C);
    let scs = scenarios(thorough, &mut rng);
    let per = if thorough { 200 } else { 24 };
    std::panic::set_hook(Box::new(|_| {}));
    let mut files: std::collections::HashMap<usize, std::io::BufWriter<std::fs::File>> = std::collections::HashMap::new();
    let mut run_id = 0u64;
    for sc in &scs {
        if let Some(o) = only {
            if !sc.name.contains(o) {
                continue;
            }
        }
        for k in 0..per {
            run_id += 1;
            let shard = (run_id as usize) % shards;
            if let Some(sel) = shard_sel {
                if sel != shard {
                    continue;
                }
            }
            if run_id < from {
                continue;
            }
            // marker for the driver: if the process dies (heap corruption, segfault), this is the run that did it
            let _ = std::fs::write(format!("{}/shard-{:02}.current", outdir, shard), format!("{{\"run\":{},\"scenario\":\"{}\"}}", run_id, sc.name));
            let mut lines = Vec::new();
            let pol = if k == 0 { Policy::Free } else { Policy::Random(seed.wrapping_mul(7919).wrapping_add(run_id), 150) };
            // in half of the runs one thread is starved: it stays parked at its next operation while the others run
            let starve = match k % 4 {
                1 => Some("w1"),
                3 => Some("w2"),
                _ => None,
            };
            run_scenario(sc, pol, run_id, &mut lines, starve);
            let path = format!("{}/shard-{:02}.ndjson", outdir, shard);
            let f = files.entry(shard).or_insert_with(|| std::io::BufWriter::new(std::fs::OpenOptions::new().append(true).create(true).open(&path).unwrap()));
            for l in lines {
                writeln!(f, "{}", l).unwrap();
            }
            f.flush().unwrap();
        }
    }
    // memory balance of whole vectors (items without and with drop glue), outside the scheduler
    let mut extra = 0;
    if only.map_or(true, |o| "memory-balance".contains(o)) {
        for (n, cols, plain) in [(40u32, 1u32, true), (700, 2, true), (40, 1, false), (700, 2, false)] {
            run_id += 1;
            extra += 1;
            let shard = (run_id as usize) % shards;
            if shard_sel.map_or(false, |sel| sel != shard) || run_id < from {
                continue;
            }
            let mut warm = Vec::new();
            memory_balance(run_id, n, cols, plain, &mut warm); // first call pays for lazily initialised state
            let mut lines = Vec::new();
            memory_balance(run_id, n, cols, plain, &mut lines);
            let path = format!("{}/shard-{:02}.ndjson", outdir, shard);
            let f = files.entry(shard).or_insert_with(|| std::io::BufWriter::new(std::fs::OpenOptions::new().append(true).create(true).open(&path).unwrap()));
            for l in lines {
                writeln!(f, "{}", l).unwrap();
            }
            f.flush().unwrap();
        }
    }
    let _ = std::panic::take_hook();
    println!("{{\"runs\":{},\"scenarios\":{},\"shards\":{}}}", run_id, scs.len() + (extra > 0) as usize, shards);
}
