"""C14: pattern parse records validated against spec/PatternGrammar.tla via spec/PatternTrace.tla, plus the
exhaustive grammar lemmas (spec/PatternGrammarMC.tla)."""
import json, os, sys, time, glob
from common import *
from trace_props import *


def main(prop):
    t0 = time.time()
    thorough = tier() == 'thorough'
    wd = workdir(prop)
    build_harness()
    cdb = chardb()
    # 1. lemmas about the grammar itself, exhaustive on all texts <= LT
    cfg = os.path.join(wd, 'PatternGrammarMC.cfg')
    open(cfg, 'w').write(open(os.path.join(SPEC, 'PatternGrammarMC.cfg')).read().replace('LT = 5', 'LT = %d' % (6 if thorough else 5)))
    rc, out = tlc('PatternGrammarMC.tla', cfg=cfg, env={'CHARDB': cdb}, workers=NCPU, timeout=3000, xmx='8g')
    err = tlc_failed(rc, out)
    lem = tlc_stats(out)
    if err or not lem['completed'] or 'is violated' in out:
        die_tool('PatternGrammarMC: the grammar specification violates its own lemma (oracle defect)\n' + out[-3000:])
    # 2. impl -> spec
    tdir = os.path.join(wd, 'trace')
    p = nvh(['pattern-trace', '--tier', tier(), '--seed', seed(), '--shards', NCPU, '--out', tdir])
    gen = json.loads(p.stdout.strip().splitlines()[-1])
    files = sorted(glob.glob(os.path.join(tdir, 'shard-*.ndjson')))
    outs = run_shards('PatternTrace.tla', files, {'CHARDB': cdb}, timeout=7000 if thorough else 900)
    violations, tot, states, trans, want = [], {'records': 0, 'atoms': 0, 'histories': 0, 'fails': 0}, 0, 0, {}
    judged = {}
    for f, st, lines in outs:
        states += st['distinct']; trans += st['generated']
        for j in lines:
            if j.get('ev') == 'DONE':
                for k in tot:
                    tot[k] += j['stat'][k]
            elif j.get('ev') == 'JUDGE':
                want.setdefault(f, set()).add(j['id'])
                judged[(f, j['id'])] = j
    if tot['records'] != gen['records']:
        die_tool('record count mismatch: harness %d, TLC %d' % (gen['records'], tot['records']))
    recs = fetch_records(want)
    for key, j in sorted(judged.items(), key=lambda x: x[0][1]):
        r = recs.get(key, {})
        txt = '%s: api=%s case=%s norm=%s text=%r produced %s, grammar says %s' % (
            ','.join(j['viol']), r.get('api'), r.get('case'), r.get('norm'), ''.join(map(chr, r.get('text', []))),
            json.dumps(r.get('atoms'))[:300], json.dumps(j.get('expected'))[:300])
        violations.append(({'kind': 'pattern-record', 'property': prop, 'clauses': j['viol'], 'record': r, 'expected': j.get('expected')}, txt))
    cov = {
        'states': states + lem['distinct'], 'transitions': trans + lem['generated'],
        'traces_validated_against_impl': len(files),
        'parse_records_validated': tot['records'], 'atoms_compared': tot['atoms'], 'reparse_histories': tot['histories'],
        'grammar_lemma_states': lem['distinct'],
        'evaluations': tot['records'], 'distinct_nontrivial': tot['records'] - 0,
        'rule': 'every text of length <= %d over the 13-symbol marker/whitespace/escape alphabet under all 6 CaseMatching x Normalization settings through Pattern::parse (the other entry points on a rotating subset), plus seeded random texts <= 24 over a 35-symbol alphabet and reparse histories of 1-3 earlier texts; every record is a distinct (api, settings, text, history) tuple' % (5 if thorough else 4),
        'samples': first_samples(files), 'exhaustive': False,
    }
    finish(prop, 'model_checking', cov, violations, {}, t0,
           assumptions=['the private ignore_case/normalize flags are read from the derived Debug output of Atom',
                        'texts avoid multi-code-point grapheme clusters (conversion is C17\'s claim)',
                        'fold / normalise / upper-case columns come from the crate\'s public maps (C16)'])


if __name__ == '__main__':
    main(sys.argv[1])
