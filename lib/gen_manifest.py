#!/usr/bin/env python3
"""Regenerates /verif/MANIFEST.json from the table below (kept next to the driver so both stay in sync)."""
import json, os, subprocess
ROOT = '/verif'
props = [json.loads(l) for l in open(os.path.join(ROOT, 'properties.jsonl'))]

MATCHER_NOTE = ("Trusted: TLC's evaluation of the TLA+ definitions; rustc's char tables for character classes; the crate's public "
                "to_lower_case/normalize maps as the definition of 'configured folding' (their correctness is C16's claim); "
                "inputs are sampled/enumerated within the stated bounds, not all strings.")

CHECKS = {
 'C01': dict(design='4/C01', technique='TLA+ trace validation (TLC) of recorded Matcher calls against Fzf!IsSubseq; TLC-exhaustive spec lemmas (FzfMC)',
   text="Model checking in two parts. (1) TLC exhaustively checks, on every haystack <= 4 (thorough 5) x needle <= 3 over a class-covering alphabet, that the specification's three deciders (alignment set, greedy scan, two-matrix recurrence) agree. (2) Every call record of the real matcher (all 12 entry points x representation combinations x prefer_prefix, fresh and long-lived matcher; families: exhaustive-small strided, random over a 260-code-point universe, size limits up to 70 000 chars / 5 000-char needles, wide windows) is consumed by the TLA+ trace spec MatcherTrace, whose action postcondition is 'matched <=> IsSubseq(needle, NormSeq(haystack))' for the four fuzzy entry points in every representation. A failing record is a violation unless it matches a listed known finding.",
   note=MATCHER_NOTE),
 'C02': dict(design='4/C02', technique='TLA+ trace validation (TLC): indices vectors checked against Fzf!ValidWitness / Contiguous / anchoring',
   text="Every recorded *_indices call (six algorithms, all representations, random prior vector content) is validated by TLC against the witness predicates of Fzf.tla: prefix of the vector untouched, exactly |needle| strictly increasing in-range indices whose normalised haystack characters equal the needle, contiguity and anchoring for substring/prefix/postfix/exact, nothing appended on failure; the spec's own anchoring lemmas are TLC-exhaustive on small strings.",
   note=MATCHER_NOTE),
 'C03': dict(design='4/C03', technique='TLA+ trace validation (TLC): score = Fzf!AlignScore(reported alignment), constants as literals in the spec',
   text="For every recorded call with prefer_prefix off TLC recomputes the documented fzf scheme (AlignScore in Fzf.tla, constants written as literals from the documentation, not read from score.rs) on the alignment the implementation reported and demands equality (clamped to the u16 range: saturate, never wrap), equality of the score-only twin, for six algorithms including 2 000-5 000-character needles.",
   note=MATCHER_NOTE + " A score above 65535 cannot be represented in the u16 return type: the spec accepts saturation at 65535 and nothing else."),
 'C04': dict(design='4/C04', technique='TLA+ trace validation (TLC) against brute-force optimum and full-matrix recurrence evaluated in TLA+; TLC-exhaustive lemma NaiveRec <= Best',
   text="TLC evaluates, per recorded fuzzy_match/fuzzy_indices call, the brute-force maximum over all alignments (haystack <= 12, needle <= 4) and the naive two-matrix affine-gap recurrence on the full matrix (up to 30 000 cells quick / 110 000 thorough, whenever the documented slab limits admit the matrix path) and checks NaiveRec <= score <= Best, equality for one-character needles, and off <= on <= off+8 for prefer_prefix; FzfMC proves by exhaustion on small strings that the interval is never empty.",
   note=MATCHER_NOTE + " The admissibility limits of the matrix path are those of SlabLayout.tla (documented: ~100 KiB cells, needle <= 2048, haystack <= 65535, slab size)."),
 'C05': dict(design='4/C05', technique='TLA+ trace validation (TLC) against Fzf!SubstringPos / PrefixPos / PostfixPos / ExactPos',
   text="Every recorded substring/prefix/postfix/exact call is judged by TLC against the relations of Fzf.tla: decision, the leftmost occurrence with the highest first-character bonus, whitespace trimming rules; the relations' own coherence lemmas are TLC-exhaustive on small strings.",
   note=MATCHER_NOTE),
 'C14': dict(design='4/C14', technique='TLA+ grammar function (PatternGrammar.tla) as oracle; TLC validates parse records; TLC-exhaustive round-trip lemma',
   text="The pattern syntax is transcribed into TLA+ as a function from text to atoms (PatternGrammar.tla). TLC proves by exhaustion over all texts <= 5 (thorough 6) on a 10-symbol marker alphabet the round-trip lemma (parsing Escape(lit) yields one fuzzy atom with needle lit) and that empty atoms are dropped; every record of the real parser (all texts <= 4 over a 13-symbol marker/whitespace/escape/non-ASCII alphabet x 6 settings through Pattern::parse, rotating Pattern::new/Atom::parse/Atom::new, random longer texts, reparse histories) is consumed by PatternTrace whose action requires atoms = Parse(text) including the private case/normalisation flags.",
   note="Trusted: TLC; Debug output of Atom for the two private flags; the crate's public fold/normalise/is_upper_case maps (C16). Texts avoid multi-code-point graphemes (C17)."),
 'C15': dict(design='4/C15', technique='TLA+ composition laws (PatternScore.tla); TLC validates score/indices/multi-column/match_list records',
   text="The composition laws (conjunction with negation, sum of positive atoms, indices appended per positive atom in atom order, column conjunction, stable descending sort of exactly the matching inputs) are TLA+ operators; every record of the real code (random patterns of 0-4 mixed atoms; Pattern::score, Pattern::indices with prior vector content, a permuted atom order, MultiPattern::score over 1-3 columns, Pattern::match_list and Atom::match_list over up to 60 items with score ties, all on one shared matcher whose case/normalisation settings are scrambled before each call) is consumed by the trace action, whose per-atom inputs come from direct Matcher calls on a matcher that only ever served that atom.",
   note="Trusted: the per-atom Matcher results (C01-C05 decide those); the private atom flags are read from Debug output; TLC."),
 'C18': dict(design='4/C18', technique='TLA+ call-level Sort action (ParSort.tla) validated by TLC on recorded calls through the cfg-gated facade; complete runs of the real worker per thread count validated against the unique documented order (WorkerOrder.tla); TLC-exhaustive uniqueness/strict-weak-order lemmas',
   text="Every recorded call of the crate-private par_quicksort (reached through the cfg(nucleo_verif) facade; lengths 0..64 exhaustively x 7 arrangement families, up to 50 000 quick / 300 000 thorough, randomised McIlroy adversary inputs that reach the heapsort fallback, 1/2/4/8 pool threads, cancel flag raised before the call or by the comparator at its k-th invocation over a geometric grid) is consumed by the Sort action: output is a permutation of the input, sorted whenever 'not cancelled' is reported, 'cancelled' only if the flag was raised. ParSortMC proves by exhaustion (arrays <= 5) that the worker's comparison is a strict weak order whose sorted permutation is unique, which gives thread-count independence. Branch counters (cfg-gated) report which rarely taken branches ran.",
   note="Trusted: TLC; the comparator replica in the harness; the sort is judged at call granularity (internals exercised, not modelled)."),
 'C16': dict(design='4/C16', technique='TLA+ (CharsCheck.tla) over the complete dumped graph of the three public maps + probe-match disagreement sets; exhaustive over all 1,112,064 scalars',
   text="Finite domain decided completely: the harness dumps the full non-identity graph of normalize / to_lower_case / is_upper_case over all scalar values and, for each (ignore_case, normalize) configuration and each scalar, five probe matches that observe the matcher's internal normalisation routines; TLC consumes every dump entry (one action each) and checks equality with reference simple case folding, the decomposition-base rule inside the documented blocks, idempotence, ASCII fixed points, block confinement, agreement of the routines, and completeness against the reference tables.",
   note="Trusted: Python unicodedata (Unicode 14.0) as reference; code points unassigned there are reported as unchecked. Probes observe internals only through match results."),
 'C17': dict(design='4/C17', technique='UAX #29 rule machine in TLA+ (Graphemes.tla) + Utf32.tla as oracle; TLC validates conversion records; TLC-exhaustive rule lemmas',
   text="Extended grapheme cluster rules GB3-GB13 incl. GB9c are written as a TLA+ fold (independent of the unicode-segmentation crate); TLC checks the rule machine's lemmas on all class strings <= 4 (thorough 5) and validates every conversion record of the real code (all strings <= 2 quick / 3 thorough plus strided longer and random ones over 33 segmentation-relevant code points): all six constructors, len, get, chars forwards/backwards, Display and every slice form of Utf32Str and Utf32String must equal Convert(s).",
   note="Trusted: hand-assigned break classes of 33 code points (stable across Unicode 15.1-16.0); TLC."),
 'C10': dict(design='4/C10', technique='TLA+ trace validation (TLC): no panic, used matcher = fresh matcher per call; SlabLayout model',
   text="Every recorded call must return without panic (harness built with overflow checks and debug assertions; a panic is a recorded outcome judged by the spec) and the outcome on a long-lived matcher that served all earlier calls of its trace must equal the outcome on a fresh matcher (MatcherTrace hist clause). Sizes on and around every limit are part of the L and W families. The cfg-gated extents hook reports the byte range of each of the five views MatrixSlab::alloc forms; TLC checks them in bounds, disjoint and aligned (and against SlabLayout.tla: a mere layout change is MODEL-DRIFT), and SlabLayoutMC proves the layout arithmetic for every admissible window size of the selected needle lengths (all 1..2048 in the thorough tier).",
   note=MATCHER_NOTE + " Out-of-bounds accesses through in-bounds views are not observable by this technique."),
}


SCHED_NOTE = 'Trusted: TLC; the scheduler serialises instrumented operations (atomics of the cfg-gated shim, protocol hooks, harness call/return markers) and code between them runs freely; schedules are sampled (seeded random with role starvation), not exhaustive; timeouts are real time.'
CHECKS.update({
 'C06': dict(design='4/C06', technique='TLA+ property monitors (NucleoTrace.tla) validated by TLC over scheduler-controlled executions of the real Nucleo',
   text="The real Nucleo (UI thread, 0-3 injector threads, 1-4 pool threads, 1-2 columns) runs scenario scripts of reparse / tick(timeout) / restart / push / extend under a controlled scheduler that decides the order of every atomic operation and protocol hook (cfg-gated yield points), so writers are held between index reservation and publication and runs are interleaved with cancellations and rescoring. After every tick the whole snapshot projection is logged (count, pattern, every match with its item read through the safe accessor). TLC consumes each trace with the monitor spec: every match initialised, injected, unique, scored as the reference table of the trace header says, ordered by (score desc, length asc, index asc), count consistent with a processed set. A panic inside the library is a recorded outcome (child process, partial trace + abort event). In addition TLC explores the protocol model Nucleo.tla (tick / worker / notify / restart, one action per hook site) exhaustively for small constants (NucleoMC.tla) with the snapshot invariants, and NucleoConform.tla replays every recorded run against the same actions (every serialised load, hook scalar, decision, dumped snapshot and returned Status must be the model's; unmatched lines are reported as MODEL-DRIFT, which does not decide the exit status); the model's counterexamples are replayed on the code by scheduler rules.",
   note=SCHED_NOTE + " Reference scores come from a fresh MultiPattern/Matcher (C01-C05, C15). A mutant confined to the parallel sort's cancellation needs >4000 matches and is covered by C18, not here."),
 'C07': dict(design='4/C07', technique='TLA+ monitor FromScratch (NucleoTrace.tla) at quiescence, validated by TLC over scheduler-controlled executions',
   text="Every scenario ends in (and several contain intermediate) quiescent points reached by an event loop that only ticks when notified; when the last tick reported running = false TLC requires the logged snapshot to equal the from-scratch result computed in the spec from the header's reference scores over all items whose injection completed on the current stream (count, match set, scores, order via the C06 monitor). Edit histories include append chains (f, fo, foo, foo$, foo$b; a\\, a\\ b), non-append edits, several edits between ticks, negative patterns, restarts, cancelled runs. The protocol model Nucleo.tla is checked exhaustively for the invariant Converged (quiescent and not running implies snapshot = FromScratch).",
   note=SCHED_NOTE),
 'C08': dict(design='4/C08', technique='TLA+ linearizability monitor (BoxcarTrace.tla) validated by TLC over scheduler-controlled executions of the real boxcar::Vec (cfg-gated facade)',
   text="2-3 real threads run push / extend (honest, short, over-long iterators; panicking fill callbacks) / get / count / snapshot iteration on one real boxcar::Vec, prefilled so that bucket boundaries and the eager-allocation index are crossed; the scheduler picks the order of every atomic operation. TLC validates each trace at call/return granularity: indices distinct and gap-free w.r.t. the reservations, a lookup returns nothing or exactly the value and columns some started push produced, never for an unassigned index, read-your-writes for completed pushes and batches, count between completed pushes and started reservations and monotone per observer, batches contiguous in order, final read-back explained exactly by the calls. TLC also explores the fine-grained model Boxcar.tla (one action per atomic operation, two threads, three buckets) exhaustively for the linearizability invariants; and every installed bucket pointer must refer to an allocation of the bucket's length.",
   note=SCHED_NOTE + " Values are unique per run so an observed (index, value) pair identifies its writer."),
 'C09': dict(design='4/C09', technique='TLA+ happens-before model (MemModel.tla, vector clocks, release sequences) evaluated by TLC on recorded atomics with their declared orderings',
   text="Every atomic operation of the library is recorded with the memory ordering written in the source (the cfg-gated shim forwards and logs it) together with every non-atomic access to library-owned memory (entry write/read/drop, bucket initialisation/free, matcher scratch slots). TLC replays each trace through the C11-style happens-before model: program order, release/acquire pairs with RMW-continued release sequences, and a short list of axiomatic edges (thread spawn/join, rayon spawn and fork/join, worker mutex hand-over, Arc release/acquire). The scheduler's serialisation contributes no edge, so a weakened ordering is a reported race although x86 would never misbehave. Applied to the vector-level and to the whole-matcher executions. Exhaustive complement: the ordering of every abstract atomic site is EXTRACTED from the recorded events and Boxcar.tla is explored exhaustively with that table under the finite known-writes abstraction of happens-before (invariant RaceFree), so a weakened ordering in the source is confronted with all interleavings of the model.",
   note=SCHED_NOTE + " Synchronisation inside rayon / parking_lot / Arc is axiomatised (placed conservatively); stale-value effects of Relaxed loads are modelled only through interleaving."),
 'C11': dict(design='4/C11', technique='TLA+ drop-accounting monitors (BoxcarTrace.tla, NucleoTrace.tla) validated by TLC over scheduler-controlled executions with drop-logging payloads',
   text="Items are drop-logging payloads. Vector level: every value handed to push/extend (honest, lying and panicking callers, concurrent) is dropped exactly once, published ones exactly when the vector is dropped, values of panicking fills / surplus iterator elements before. Matcher level: an entry may only be dropped when no injector handle of its stream is alive, the matcher has moved to another stream (or is being dropped) and the snapshot no longer shows it; at the end every created item has been dropped exactly once. Histories include restarts, old injectors that keep pushing, drops from injector threads. Boxcar.tla is explored exhaustively for DroppedOnce / NothingLeaked / NoDropWhileAlive, and the Lifecycle scripts (one per model transition) check that everything created is dropped once the matcher and all handles are gone.",
   note=SCHED_NOTE + " Leaks of column strings inside a leaked item are not separately observed (the item's drop is)."),
 'C12': dict(design='4/C12', technique='TLA+ restart monitors (NucleoTrace.tla) validated by TLC over scheduler-controlled executions',
   text="Item ids carry their stream number. For every logged snapshot TLC checks: all matches from one stream; after restart(true) empty until a run over the new stream was taken over; after restart(false) identical to the pre-restart snapshot until then; items of an earlier stream never in a snapshot updated after the restart; item count bounded by the new stream's injections; no duplicate produced by stale bookkeeping. Scenarios: restart with old injectors still pushing, runs finishing before/after the restart, timed-out ticks in between, two restarts in a row. The protocol model Nucleo.tla (two streams) is checked exhaustively for RestartIsolation and snapshot safety.",
   note=SCHED_NOTE),
 'C13': dict(design='4/C13', technique='TLA+ wake-up monitors (NucleoTrace.tla) validated by TLC over scheduler-controlled executions driven by a notify-only event loop',
   text="The UI script ends in an event loop that ticks only when the notify closure (the harness's, logged as an event) was called since the last tick. TLC checks at the end of every run that a last tick which reported running = true was followed by a notification (no lost wake-up), and for every push/extend that notify was called by that call after the item's publication store. The two recorded lost-wake-up schedule signatures are known findings; any other lost wake-up is a violation. The protocol model Nucleo.tla is checked exhaustively for NoOtherLostWakeup (the recorded lost wake-up carries a ghost signature); its three lost-wake-up counterexample families are forced on the real code by scheduler rules (scenarios forced-lost-wakeup-*) and reproduce as known findings; further adversarial rules (the whole run completes right after the spawn; a push in flight during a scan) target the hand-over windows.",
   note=SCHED_NOTE),
 'C19': dict(design='4/C19', technique='TLA+ status monitors (NucleoTrace.tla) validated by TLC over scheduler-controlled executions',
   text="For every tick TLC compares the snapshot projections logged before and after: changed = false implies identical matches, count and pattern; running = false implies that every push/extend of the current stream that had returned before the tick was called is included in the item count and that the snapshot pattern is the current pattern. The protocol model Nucleo.tla is checked exhaustively for RunningFalseMeansCaughtUp and Converged.",
   note=SCHED_NOTE),
 'C20': dict(design='4/C20', technique='TLA+ handle-count monitor (NucleoTrace.tla) validated by TLC over scripted and randomly scheduled handle histories',
   text="The monitor keeps the set of live injector handles with their stream; every value returned by active_injectors() (after each injector/clone/drop/restart/tick/dump of the scripts, including drops from injector threads that overlap the observation) must equal the number of live handles of the current stream (an interval when a drop overlaps the read). Additionally spec -> impl: TLC explores the handle-algebra model Lifecycle.tla exhaustively (invariant: the reference-count formula equals the number of live handles of the current stream) and prints one script per model transition; every script is replayed on a real Nucleo (a timed-out tick is produced by parking the worker at run.begin) and LifecycleTrace validates each replayed step against the model.",
   note=SCHED_NOTE),
})

m = {
 "version": 1,
 "setup_cmd": "./check setup",
 "hooks": {
  "guard": "nucleo_verif",
  "enable": "rustc --cfg nucleo_verif, passed by /verif/harness/.cargo/config.toml (the harness crate has path dependencies on /repo and /repo/matcher, so every check rebuilds the working tree)",
  "baseline_off_cmd": "cd /repo && cargo test --workspace --no-fail-fast --offline",
  "source_commits": [],
  "add_only": True
 },
 "engines": [
  {"name": "TLC", "path": "/opt/veriftools/tla/tla2tools.jar", "serves_properties": sorted(CHECKS), "kind_free_text": "explicit-state model checker; also evaluates the trace-validation specs"},
  {"name": "nvh", "path": "/verif/harness", "serves_properties": sorted(CHECKS), "kind_free_text": "Rust harness driving the real crates and recording ndjson traces"}
 ],
 "checks": [],
 "notes": "see DESIGN.md; known_findings.json lists recorded defects and fix: commits",
 "not_applicable": []
}
try:
    log = subprocess.run(['git', '-C', '/repo', 'log', '--format=%H %s'], capture_output=True, text=True).stdout.splitlines()
    m['hooks']['source_commits'] = [l.split()[0] for l in log if l.split(' ', 1)[1].startswith('verif-hook:')]
except Exception:
    pass
for p in props:
    pid = p['id']
    if pid in CHECKS:
        c = CHECKS[pid]
        m['checks'].append({
            "property_id": pid,
            "quick_cmd": "./check %s --tier quick" % pid,
            "thorough_cmd": "./check %s --tier thorough" % pid,
            "evidence_file": "/verif/evidence/%s.json" % pid,
            "replay_cmd_template": "./check replay {path}",
            "engine": "TLC",
            "level_claimed": {"category": "model_checking", "text": c['text'], "design_ref": "DESIGN.md section " + c['design']},
            "level_note": c['note'],
            "technique": c['technique'],
        })
    else:
        m['not_applicable'].append({"property_id": pid, "reason": "check not built yet (construction in progress, DESIGN.md section 10); the TLA+ technique applies"})
json.dump(m, open(os.path.join(ROOT, 'MANIFEST.json'), 'w'), indent=1)
print(len(m['checks']), 'checks,', len(m['not_applicable']), 'not applicable')
