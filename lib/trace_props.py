"""Generic runner for record-per-line trace validations (one TLC process per shard)."""
import json, os, sys, time, glob
from common import *


def run_shards(spec, files, env, timeout, xmx='3g', parallel=None):
    jobs = [dict(spec=spec, env=dict(env, TRACE=f), workers=1, timeout=timeout, xmx=xmx) for f in files]
    res = tlc_many(jobs, parallel=parallel)
    outs = []
    for f, (rc, out) in zip(files, res):
        err = tlc_failed(rc, out)
        st = tlc_stats(out)
        if err or not st['completed']:
            die_tool('%s on %s: %s\n%s' % (spec, f, err, out[-2000:]))
        outs.append((f, st, json_lines(out)))
    return outs


def fetch_records(files_ids, key='id'):
    """files_ids: {file: set(ids)} -> {(file,id): record}"""
    res = {}
    for f, ids in files_ids.items():
        if not ids:
            continue
        with open(f) as fh:
            for l in fh:
                try:
                    r = json.loads(l)
                except Exception:
                    continue
                if r.get(key) in ids:
                    res[(f, r[key])] = r
    return res


def first_samples(files, n=3, maxlen=2500):
    s = []
    for f in files:
        with open(f) as fh:
            for k, l in enumerate(fh):
                if len(l) < maxlen:
                    s.append(json.loads(l))
                    break
        if len(s) >= n:
            break
    return s
