"""Model-based test generation from spec/Lifecycle.tla (spec -> impl -> spec), used by C20 and C11."""
import json, os, sys, time
from common import *


def run(prop, wd, thorough):
    # LifecycleItems = Lifecycle + items per stream, pushes through any live handle, update_config, drop of the matcher
    cfg = os.path.join(wd, 'LifecycleItemsGen.cfg')
    consts = (3, 2, 3, 1) if thorough else (2, 2, 2, 1)
    open(cfg, 'w').write('CONSTANTS MaxHandles = %d\n          MaxRestarts = %d\n          MaxCreated = %d\n          MaxPush = %d\nINIT GInit\nNEXT GNext\nVIEW GView\n'
                         'INVARIANTS ActiveFormulaCorrect WorkerStreamDiscipline SnapshotNeverAhead MatcherHoldsFew OldStreamsLiveByHandlesOnly\nCHECK_DEADLOCK FALSE\n' % consts)
    rc, out = tlc('LifecycleItemsGen.tla', cfg=cfg, workers=1, timeout=3000, xmx='4g')
    st = tlc_stats(out)
    if tlc_failed(rc, out) or not st['completed']:
        die_tool('LifecycleItemsGen: ' + out[-2000:])
    model_violated = 'is violated' in out
    scripts = [j for j in json_lines(out) if j.get('ev') == 'SCRIPT']
    spath = os.path.join(wd, 'scripts.ndjson')
    with open(spath, 'w') as f:
        for s in scripts:
            f.write(json.dumps({'ops': s['ops']}) + '\n')
    rpath = os.path.join(wd, 'lifecycle.ndjson')
    p = nvh(['lifecycle-replay', '--scripts', spath, '--out', rpath], timeout=7200)
    rc2, out2 = tlc('LifecycleItemsTrace.tla', env={'TRACE': rpath}, workers=1, timeout=3000, xmx='4g')
    st2 = tlc_stats(out2)
    if tlc_failed(rc2, out2) or not st2['completed']:
        die_tool('LifecycleItemsTrace: ' + out2[-2000:])
    viol, done = [], None
    recs = None
    for j in json_lines(out2):
        if j.get('ev') == 'DONE':
            done = j['stat']
        elif j.get('ev') == 'JUDGE':
            want = {'active_injectors_differs_from_model'} if prop == 'C20' else {
                'items_not_dropped_exactly_once_when_unreachable', 'item_destroyed_while_its_stream_is_reachable', 'item_destroyed_twice',
                'items_of_unreachable_stream_not_destroyed'}
            if want & set(j['viol']):
                if recs is None:
                    recs = [json.loads(l) for l in open(rpath)]
                r = recs[j['id'] - 1]
                viol.append(({'kind': 'lifecycle-script', 'property': prop, 'clauses': j['viol'], 'script': r, 'step': j['step'],
                              'observed': j['observed'], 'expected': j['expected']},
                             '%s: script %d step %d (%s): observed %s, model says %s' % (','.join(j['viol']), j['id'], j['step'],
                                 ' '.join('%s(%s)' % (s['op'], s['arg']) for s in r['steps'][:max(j['step'], 1)]), j['observed'], j['expected'])))
    if done is None or done['scripts'] != len(scripts):
        # a step the model cannot take: the model does not describe the harness' script any more
        print('MODEL-DRIFT: LifecycleItemsTrace consumed %s of %d scripts' % (done and done['scripts'], len(scripts)))
    # the same discipline for unbounded handles / restarts / ticks: TLAPS
    import subprocess, shutil, re
    pdir = os.path.join(wd, 'lifecycle-proof')
    shutil.rmtree(pdir, ignore_errors=True)
    os.makedirs(pdir)
    shutil.copy(os.path.join(SPEC, 'LifecycleProof.tla'), pdir)
    pr = subprocess.run(['timeout', '900', 'tlapm', '--threads', '4', 'LifecycleProof.tla'], cwd=pdir, stdout=subprocess.PIPE, stderr=subprocess.STDOUT, text=True)
    m = re.search(r'All (\d+) obligations? proved', pr.stdout)
    if pr.returncode != 0 or not m:
        die_tool('LifecycleProof.tla: TLAPS did not prove the inductive invariant (oracle defect)\n' + pr.stdout[-2000:])
    cov = {'lifecycle_tlaps_obligations_proved': int(m.group(1)), 'lifecycle_model_states': st['distinct'], 'lifecycle_model_transitions': st['generated'],
           'lifecycle_scripts_replayed_on_impl': len(scripts), 'lifecycle_steps_validated': done['steps'] if done else 0,
           'lifecycle_model_invariant_violated': model_violated,
           'lifecycle_sample_script': scripts[len(scripts) // 2]['ops'] if scripts else []}
    return viol, cov, st['distinct'] + st2['distinct'], st['generated'] + st2['generated'], len(scripts)
