#!/usr/bin/env python3
"""Reference Unicode data for C16 (spec/CharsCheck.tla), derived from Python's unicodedata (Unicode 14.0):
  {"ev":"SF","c":cp,"to":cp}      simple case folding where it is not the identity
  {"ev":"DC","c":cp,"base":cp}    code points of the five documented blocks whose NFKD decomposition is an ASCII
                                  letter/digit followed only by combining marks
  {"ev":"AS","lo":cp,"hi":cp}     ranges of code points assigned in this Unicode version (others are 'unchecked')
Simple case folding: casefold() if it is one code point, else lower() if it is one code point and differs, else
identity (verified to reproduce the crate's 15.0 table on all 14.0 code points)."""
import sys, json, unicodedata

BLOCKS = [(0x00A0, 0x00FF), (0x0100, 0x017F), (0x0180, 0x024F), (0x1E00, 0x1EFF), (0x2070, 0x209F)]


def simple_fold(ch):
    f = ch.casefold()
    if len(f) == 1:
        return f
    l = ch.lower()
    if len(l) == 1 and l != ch:
        return l
    return ch


def main(out):
    with open(out, 'w') as f:
        lo = None
        for cp in range(0x110000):
            if 0xD800 <= cp <= 0xDFFF:
                assigned = False
            else:
                ch = chr(cp)
                assigned = unicodedata.category(ch) != 'Cn'
                if assigned:
                    sf = simple_fold(ch)
                    if sf != ch:
                        f.write(json.dumps({'ev': 'SF', 'c': cp, 'to': ord(sf)}) + '\n')
            if assigned and lo is None:
                lo = cp
            if not assigned and lo is not None:
                f.write(json.dumps({'ev': 'AS', 'lo': lo, 'hi': cp - 1}) + '\n')
                lo = None
        if lo is not None:
            f.write(json.dumps({'ev': 'AS', 'lo': lo, 'hi': 0x10FFFF}) + '\n')
        for a, b in BLOCKS:
            for cp in range(a, b + 1):
                ch = chr(cp)
                d = unicodedata.normalize('NFKD', ch)
                if d != ch and d[0].isascii() and d[0].isalnum() and all(unicodedata.combining(x) > 0 for x in d[1:]):
                    f.write(json.dumps({'ev': 'DC', 'c': cp, 'base': ord(d[0])}) + '\n')
        f.write(json.dumps({'ev': 'VER', 'unicode': unicodedata.unidata_version}) + '\n')


if __name__ == '__main__':
    main(sys.argv[1])
