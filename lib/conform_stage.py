"""Trace validation of the protocol model: every recorded execution (the same ndjson traces the monitors read) is
replayed against the actions of spec/Nucleo.tla by spec/NucleoConform.tla.

A run the specification does not accept is reported as MODEL-DRIFT (first unmatched line, with the model's state):
it says the exhaustively checked model is no longer a model of this code - a changed protocol or a defect - and is
recorded in the evidence.  It does not decide the exit status: the verdict about the listed property stays with the
monitors, so that a behaviour-preserving reordering inside the library is never reported as a violation."""
import json, os
from common import *


def run(files, thorough):
    jobs = [dict(spec='NucleoConform.tla', env={'TRACE': f}, workers=1, timeout=7000 if thorough else 1500, xmx='4g') for f in files]
    res = tlc_many(jobs)
    tot = {'runs': 0, 'drifted_runs': 0, 'ticks': 0, 'snapshots': 0, 'worker_runs': 0}
    drift, states, trans = [], 0, 0
    for f, (rc, out) in zip(files, res):
        st = tlc_stats(out)
        states += st['distinct']; trans += st['generated']
        done = False
        for j in json_lines(out):
            if j.get('ev') == 'DONE':
                done = True
                for k in tot:
                    tot[k] += j['stat'][k]
            elif j.get('ev') == 'DRIFT':
                drift.append('run %s (scenario %s): no action of Nucleo.tla accepts line %s (%s %s, seq %s); model at that point: ui.pc=%s wk.pc=%s lock=%s canceled=%s should_notify=%s last_snapshot=%s in_flight=%s'
                             % (j['run'], j['scenario'], j['line'], j['role'], j['site'], j['seq'], j['uipc'], j['wkpc'], j['lock'], j['canceled'], j['should_notify'], j['last'], j['inflight']))
        if 'is violated' in out:
            drift.append('%s: an invariant of Nucleo.tla fails on a state reached by a conforming prefix: %s'
                         % (os.path.basename(f), ' '.join(l for l in out.splitlines() if 'is violated' in l)[:300]))
        elif not done:
            err = [l for l in out.splitlines() if l.startswith('Error')][:2]
            drift.append('%s: the specification could not evaluate the trace to its end (%s)' % (os.path.basename(f), '; '.join(err)[:300] or 'rc=%s' % rc))
    for d in drift[:12]:
        print('MODEL-DRIFT: ' + d)
    if len(drift) > 12:
        print('MODEL-DRIFT: ... and %d more' % (len(drift) - 12))
    # the binding itself: single-field corruptions of recorded runs must be rejected
    import conform_mutate
    tried, rejected, missed = conform_mutate.demo(files, 160 if thorough else 24, os.path.join(os.path.dirname(files[0]), '..', 'conform-mutate'), rng_seed=int(seed()))
    for m in missed[:5]:
        print('BINDING-GAP: a corrupted trace was accepted by NucleoConform.tla: ' + m)
    cov = {'conformance_corrupted_traces_tried': tried, 'conformance_corrupted_traces_rejected': rejected,
           'conformance_runs_replayed_on_model': tot['runs'], 'conformance_runs_rejected': tot['drifted_runs'],
           'conformance_ticks_with_equal_status': tot['ticks'], 'conformance_snapshots_equal_to_model': tot['snapshots'],
           'conformance_worker_runs_bound': tot['worker_runs'], 'conformance_drift': drift[:20]}
    return cov, states, trans


def run_box(files, thorough):
    """The same for the vector: recorded boxcar::Vec runs replayed against the actions of spec/Boxcar.tla
    (spec/BoxcarConform.tla), with the model's invariants (incl. the happens-before abstraction) on every state."""
    jobs = [dict(spec='BoxcarConform.tla', env={'TRACE': f}, workers=1, timeout=7000 if thorough else 1500, xmx='4g') for f in files]
    res = tlc_many(jobs)
    tot = {'runs': 0, 'drifted_runs': 0, 'unsupported_runs': 0}
    drift, states, trans = [], 0, 0
    for f, (rc, out) in zip(files, res):
        st = tlc_stats(out)
        states += st['distinct']; trans += st['generated']
        done = False
        for j in json_lines(out):
            if j.get('ev') == 'DONE':
                done = True
                for k in tot:
                    tot[k] += j['stat'][k]
            elif j.get('ev') == 'DRIFT':
                drift.append('vector run %s (scenario %s): no action of Boxcar.tla accepts line %s (%s %s, seq %s); model at that point: pc=%s inflight=%s buckets=%s'
                             % (j['run'], j['scenario'], j['line'], j['role'], j['site'], j['seq'],
                                {k: v for k, v in j['pc'].items() if v != 'idle'}, j['inflight'], j['bptr']))
        if 'is violated' in out:
            drift.append('%s: an invariant of Boxcar.tla fails on a state reached by a conforming prefix: %s'
                         % (os.path.basename(f), ' '.join(l for l in out.splitlines() if 'is violated' in l)[:300]))
        elif not done:
            err = [l for l in out.splitlines() if l.startswith('Error')][:2]
            drift.append('%s: the specification could not evaluate the trace to its end (%s)' % (os.path.basename(f), '; '.join(err)[:300] or 'rc=%s' % rc))
    for d in drift[:12]:
        print('MODEL-DRIFT: ' + d)
    if len(drift) > 12:
        print('MODEL-DRIFT: ... and %d more' % (len(drift) - 12))
    import conform_mutate
    tried, rejected, missed = conform_mutate.demo(files, 160 if thorough else 24, os.path.join(os.path.dirname(files[0]), '..', 'conform-mutate'),
                                                  rng_seed=int(seed()), spec='BoxcarConform.tla', cand=conform_mutate.candidates_box)
    for m in missed[:5]:
        print('BINDING-GAP: a corrupted trace was accepted by BoxcarConform.tla: ' + m)
    cov = {'vector_conformance_runs_replayed_on_model': tot['runs'], 'vector_conformance_runs_rejected': tot['drifted_runs'],
           'vector_conformance_runs_with_operations_outside_the_model': tot['unsupported_runs'],
           'vector_conformance_corrupted_traces_tried': tried, 'vector_conformance_corrupted_traces_rejected': rejected,
           'vector_conformance_drift': drift[:20]}
    return cov, states, trans
