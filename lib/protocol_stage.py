"""Exhaustive TLC run of the protocol model spec/Nucleo.tla with the invariants of one property.
The model does not read the code: its role is (1) the design-level exhaustive argument over all interleavings within
small constants, (2) the source of the forced replays (scenarios forced-*) that confirm its counterexamples on the
real code, (3) the vocabulary (actions = hook sites) the trace monitors use.  A violated invariant here is an
oracle defect (tool error), never a verdict about the code."""
import os, re
from common import *

INVS = {
    'C06': ['NoBadDeref', 'SnapshotSafe', 'SnapshotNoDup', 'SnapshotScores', 'SnapshotOrder', 'SnapshotCount'],
    'C07': ['Converged'],
    'C12': ['RestartIsolation', 'SnapshotSafe', 'SnapshotNoDup'],
    'C13': ['NoLostWakeup'],
    'C19': ['RunningFalseMeansCaughtUp', 'Converged'],
}


def run(prop, wd, thorough):
    streams = 2 if prop == 'C12' or thorough else 1
    ticks = 3 if (thorough or streams == 1) else 2
    cfg = os.path.join(wd, 'NucleoMC.cfg')
    edits = 2 if (streams == 1 and thorough) else 1      # two edits reach the rescoring of placeholders left by a cancelled run
    if streams == 2 and not thorough:
        edits = 0        # quick two-stream instance: restarts with the empty pattern only (the pattern paths are the one-stream instances')
    open(cfg, 'w').write('SPECIFICATION Spec\nCONSTANTS N = 2\n MaxStreams = %d\n MaxTicks = %d\n MaxEdits = %d\n SortInflight = TRUE\n Pats = {0, 1, 2, 3}\n Appendable = {0, 1, 2, 3}\nINVARIANTS %s\nCHECK_DEADLOCK FALSE\n'
                         % (streams, ticks, edits, ' '.join(INVS[prop])))
    rc, out = tlc('NucleoMC.tla', cfg=cfg, workers=NCPU, timeout=6000, xmx='24g', extra=['-coverage', '1'])
    st = tlc_stats(out)
    if tlc_failed(rc, out) or not st['completed'] or 'is violated' in out:
        die_tool('NucleoMC.tla: protocol model violates its invariant or did not finish (oracle defect, not a verdict)\n' + out[-3000:])
    acts = coverage_actions(out)
    never = [a for a, c in acts.items() if a[0].isupper() and c['generated'] == 0 and a not in ('Init',) and not (a == 'Restart' and streams == 1) and not (a == 'RescorePh' and edits <= 1)
             and not (edits == 0 and a in ('Reparse', 'RescoreCheck', 'RescoreOne', 'RescoreDone', 'RetryItem', 'RetryDone', 'ScanItem', 'ScanDone', 'SortStepWith', 'SortStep'))
             and a not in ('Drop', 'RunEndThenAcquire', 'Next')]
    if never:
        die_tool('NucleoMC.tla: actions never taken in the bounded model (vacuity): %s' % never)
    # beyond the exhaustive instances: random behaviours of a larger instance (3 entries, 2 streams, 4 ticks, 2 edits)
    scfg = os.path.join(wd, 'NucleoSim.cfg')
    open(scfg, 'w').write('SPECIFICATION Spec\nCONSTANTS N = 3\n MaxStreams = 2\n MaxTicks = 4\n MaxEdits = 2\n SortInflight = TRUE\n Pats = {0, 1, 2, 3}\n Appendable = {0, 1, 2, 3}\nINVARIANTS %s\nCHECK_DEADLOCK FALSE\n'
                          % ' '.join(INVS[prop]))
    rc3, out3 = tlc('NucleoMC.tla', cfg=scfg, workers=NCPU, timeout=3000, xmx='8g', extra=['-simulate', 'num=%d' % (100000 if thorough else 4000), '-depth', '300'])
    m3 = None
    for m3 in re.finditer(r'Progress: (\d+) states checked, (\d+) traces generated', out3):
        pass
    if tlc_failed(rc3, out3) or 'is violated' in out3 or m3 is None:
        die_tool('NucleoMC.tla (simulation of the larger instance): invariant violated or TLC failed (oracle defect, not a verdict)\n' + out3[-3000:])
    sim = {'protocol_model_simulated_instance': {'N': 3, 'MaxStreams': 2, 'MaxTicks': 4, 'MaxEdits': 2},
           'protocol_model_simulated_states': int(m3.group(1)), 'protocol_model_simulated_behaviours': int(m3.group(2))}
    live = {}
    if prop == 'C13':
        # the temporal form on a small instance: under weak fairness of worker, closure tails, injectors and the
        # tick in progress, a tick that reported running is always followed by a notification
        lcfg = os.path.join(wd, 'NucleoLive.cfg')
        open(lcfg, 'w').write('SPECIFICATION FairSpec\nCONSTANTS N = 2\n MaxStreams = 1\n MaxTicks = %d\n MaxEdits = 1\n SortInflight = TRUE\n Pats = {0, 1, 2, 3}\n Appendable = {0, 1, 2, 3}\nPROPERTY EventuallyNotified\nCHECK_DEADLOCK FALSE\n'
                              % (3 if thorough else 2))
        rc2, out2 = tlc('NucleoLive.tla', cfg=lcfg, workers=NCPU, timeout=6000, xmx='24g')
        st2 = tlc_stats(out2)
        if tlc_failed(rc2, out2) or not st2['completed'] or 'was violated' in out2 or 'is violated' in out2:
            die_tool('NucleoLive.tla: the liveness form of C13 fails on the protocol model or TLC did not finish (oracle defect, not a verdict)\n' + out2[-3000:])
        live = {'protocol_model_liveness': 'EventuallyNotified (Waiting ~> notified) under weak fairness: holds', 'protocol_model_liveness_states': st2['distinct']}
        st = dict(st, distinct=st['distinct'] + st2['distinct'], generated=st['generated'] + st2['generated'])
    live.update(sim)
    return dict(live, **{'protocol_model_states': st['distinct'], 'protocol_model_transitions': st['generated'], 'protocol_model_depth': st['depth'],
            'protocol_model_constants': {'N': 2, 'MaxStreams': streams, 'MaxTicks': ticks, 'MaxEdits': edits},
            'protocol_model_invariants': INVS[prop],
            'protocol_model_action_counts': {a: c['distinct'] for a, c in acts.items() if a[0].isupper()}}), st['distinct'], st['generated']
