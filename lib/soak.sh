#!/bin/sh
# repeats quick checks with different seeds on the unchanged tree: any VIOLATION is a false alarm or a new defect
# usage: soak.sh <from> <to> [properties...]   (default: the schedule-exploring checks)
cd "$(dirname "$0")/.."
from=${1:-2}; to=${2:-12}
[ $# -ge 2 ] && shift 2
props=${*:-C06 C07 C12 C13 C19 C20 C08 C09 C11}
for seed in $(seq $from $to); do
  for p in $props; do
    VERIF_SEED=$seed ./check $p > work/soak-$p-$seed.log 2>&1
    rc=$?
    echo "seed=$seed $p rc=$rc $(grep -c '^VIOLATION' work/soak-$p-$seed.log) violations: $(grep -A1 '^VIOLATION' work/soak-$p-$seed.log | grep '^  ' | head -2 | tr '\n' ' ' | cut -c1-200)"
  done
done
