#!/bin/sh
# repeats the schedule-exploring quick checks with different seeds on the unchanged tree: any VIOLATION is a false alarm or a new defect
cd "$(dirname "$0")/.."
for seed in $(seq ${1:-2} ${2:-12}); do
  for p in C06 C07 C12 C13 C19 C20 C08 C09 C11; do
    VERIF_SEED=$seed ./check $p > work/soak-$p-$seed.log 2>&1
    rc=$?
    echo "seed=$seed $p rc=$rc $(grep -c '^VIOLATION' work/soak-$p-$seed.log) violations: $(grep -A1 '^VIOLATION' work/soak-$p-$seed.log | grep '^  ' | head -2 | tr '\n' ' ' | cut -c1-200)"
  done
done
