#!/bin/sh
# runs every check of a tier sequentially and prints one status line per property
TIER=${1:-quick}
cd "$(dirname "$0")/.."
for p in C01 C02 C03 C04 C05 C06 C07 C08 C09 C10 C11 C12 C13 C14 C15 C16 C17 C18 C19 C20; do
  s=$(date +%s)
  ./check $p --tier $TIER > work/run-$TIER-$p.log 2>&1
  rc=$?
  e=$(date +%s)
  echo "$p tier=$TIER rc=$rc wall=$((e-s))s $(grep -c '^VIOLATION' work/run-$TIER-$p.log) violations $(grep -c '^KNOWN-FINDING' work/run-$TIER-$p.log) known"
done
