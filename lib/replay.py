"""./check replay <file>: re-executes a recorded violation on the current tree."""
import json, os, subprocess, sys
from common import *


def main(path):
    j = json.load(open(path))
    prop, kind = j.get('property'), j.get('kind')
    build_harness()
    if kind == 'matcher-record' and 'truncated' not in json.dumps(j['record'].get('hay', []))[:0] and '...truncated' not in [str(x) for x in j['record']['hay'][-1:]]:
        wd = workdir('replay')
        out = os.path.join(wd, 'one.ndjson')
        nvh(['matcher-one', '--input', path, '--out', out])
        env = {k: '0' for k in ['C01', 'C02', 'C03', 'C04', 'C05', 'C10']}
        env[prop] = '1'
        env.update({'CHARDB': chardb(), 'NAIVEMAX': '110000', 'NAIVESTRIDE': '1', 'TRACE': out})
        rc, o = tlc('MatcherTrace.tla', env=env, workers=1, timeout=600)
        if tlc_failed(rc, o):
            die_tool('replay: ' + o[-1500:])
        bad = [v for x in json_lines(o) if x.get('ev') == 'JUDGE' for v in x['viol'] if v[0] == prop]
        known = [v for x in json_lines(o) if x.get('ev') == 'JUDGE' for v in x['known'] if v[0] == prop]
        if bad:
            print('VIOLATION property=%s replay=%s' % (prop, path))
            print('  reproduced: ' + ', '.join('%s@block%d' % (b[1], b[2]) for b in bad))
            sys.exit(1)
        print('not reproduced on the current tree (known findings matched: %s)' % known)
        sys.exit(0)
    # everything else: the generators are deterministic functions of (tier, seed): re-run the check that produced it
    env = dict(os.environ, VERIF_SEED=str(j.get('seed', 1)), VERIF_TIER=j.get('tier', 'quick'))
    p = subprocess.run([os.path.join(ROOT, 'check'), prop, '--tier', j.get('tier', 'quick')], env=env, capture_output=True, text=True)
    want = set(map(str, j.get('clauses', [])))
    hit = [l for l in p.stdout.splitlines() if l.startswith('  ') and any(c in l for c in want)]
    if p.returncode == 1 and (hit or not want):
        print('VIOLATION property=%s replay=%s' % (prop, path))
        for l in hit[:3]:
            print(l)
        sys.exit(1)
    print('not reproduced on the current tree (check exit code %d)' % p.returncode)
    sys.exit(0 if p.returncode == 0 else p.returncode)
