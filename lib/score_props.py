"""C15: pattern composition records validated against spec/PatternScore.tla."""
import json, os, sys, time, glob
from common import *
from trace_props import *


def main(prop):
    t0 = time.time()
    thorough = tier() == 'thorough'
    wd = workdir(prop)
    build_harness()
    tdir = os.path.join(wd, 'trace')
    p = nvh(['score-trace', '--tier', tier(), '--seed', seed(), '--shards', NCPU, '--out', tdir])
    gen = json.loads(p.stdout.strip().splitlines()[-1])
    files = sorted(glob.glob(os.path.join(tdir, 'shard-*.ndjson')))
    outs = run_shards('PatternScore.tla', files, {}, timeout=7000 if thorough else 900, xmx='4g')
    violations, tot, states, trans, want, judged = [], {'records': 0, 'matching': 0, 'negated': 0, 'fails': 0}, 0, 0, {}, {}
    for f, st, lines in outs:
        states += st['distinct']; trans += st['generated']
        for j in lines:
            if j.get('ev') == 'DONE':
                for k in tot:
                    tot[k] += j['stat'][k]
            elif j.get('ev') == 'JUDGE':
                want.setdefault(f, set()).add(j['id'])
                judged[(f, j['id'])] = j
    if tot['records'] != gen['records']:
        die_tool('record count mismatch: harness %d, TLC %d' % (gen['records'], tot['records']))
    recs = fetch_records(want)
    for key, j in sorted(judged.items(), key=lambda x: x[0][1]):
        r = recs.get(key, {})
        txt = '%s: pattern %r on haystack %r: atoms %s inner %s score %s indices %s' % (
            ','.join(sorted(j['viol'])), r.get('text'), r.get('hay'), json.dumps(r.get('atoms'))[:200], json.dumps(r.get('inner'))[:200], r.get('score'), json.dumps(r.get('ind')))
        violations.append(({'kind': 'score-record', 'property': prop, 'clauses': j['viol'], 'record': r}, txt))
    cov = {
        'states': states, 'transitions': trans, 'traces_validated_against_impl': len(files),
        'composition_records_validated': tot['records'], 'records_with_negated_atoms': tot['negated'],
        'evaluations': tot['records'], 'distinct_nontrivial': tot['matching'],
        'rule': 'seeded random patterns of 0-4 atoms (all kinds, both polarities, smart/ignore/respect case, smart/never normalisation, needles drawn from the haystack) on word/path-like haystacks with accents; each record exercises Pattern::score, Pattern::indices, a permuted atom order, MultiPattern::score over 1-3 columns, Pattern::match_list and Atom::match_list over 0-60 items on a shared matcher whose settings are scrambled before each call; non-trivial = a non-empty pattern that matches',
        'samples': first_samples(files, maxlen=10**6), 'exhaustive': False,
    }
    finish(prop, 'model_checking', cov, violations, {}, t0,
           assumptions=['per-atom inner results come from a matcher that only ever served that atom (their correctness is C01-C05)',
                        'TLC evaluates the composition laws'])


if __name__ == '__main__':
    main(sys.argv[1])
