"""C08 / C09 / C11 (vector level): schedule exploration of the real boxcar::Vec under the controlled
scheduler, traces validated by spec/BoxcarTrace.tla (call/return linearizability + drop accounting) and
spec/MemModel.tla (happens-before with the declared orderings)."""
import json, os, sys, time, glob
from common import *
from trace_props import *

C11_CLAUSES = {'memory_still_held_after_the_vector_was_dropped', 'value_dropped_twice', 'published_value_dropped_while_vector_alive', 'published_value_leaked',
               'vector_dropped_unpublished_value', 'value_leaked_or_invented'}


def explore(prop, wd):
    import nuc_props
    return nuc_props.explore(os.path.join(wd, 'box'), NCPU, cmd='boxcar-sched')


def run_trace_spec(spec, files, thorough):
    outs = run_shards(spec, files, {}, timeout=7000 if thorough else 900, xmx='4g')
    tot, states, trans, judged = {}, 0, 0, []
    for f, st, lines in outs:
        states += st['distinct']; trans += st['generated']
        for j in lines:
            if j.get('ev') == 'DONE':
                for k, v in j['stat'].items():
                    tot[k] = tot.get(k, 0) + v
            elif j.get('ev') == 'JUDGE':
                judged.append((f, j))
    return tot, states, trans, judged


def run_excerpt(f, run_id, maxlines=400):
    out, on = [], False
    with open(f) as fh:
        for l in fh:
            if '"site":"reset"' in l:
                on = ('"run":%d,' % run_id) in l
            if on:
                out.append(json.loads(l))
                if len(out) >= maxlines:
                    break
    return out


def main(prop):
    t0 = time.time()
    thorough = tier() == 'thorough'
    wd = workdir(prop)
    build_harness()
    gen, files = explore(prop, wd)
    spec = 'MemModel.tla' if prop == 'C09' else 'BoxcarTrace.tla'
    tot, states, trans, judged = run_trace_spec(spec, files, thorough)
    if tot.get('runs') != gen['runs']:
        die_tool('run count mismatch: harness %s, TLC %s' % (gen['runs'], tot.get('runs')))
    violations, known = [], {}
    seen_runs = set()
    for f, j in judged:
        clauses = [c for c in j['viol'] if (prop == 'C09') or ((c in C11_CLAUSES) == (prop == 'C11'))]
        if not clauses:
            continue
        key = (j['run'], tuple(sorted(clauses)))
        if key in seen_runs:
            continue
        seen_runs.add(key)
        txt = '%s in run %d (scenario %s) at event %s' % (','.join(sorted(clauses)), j['run'], j.get('scenario'), j.get('seq'))
        if 'event' in j:
            txt += ': ' + json.dumps(j['event'])[:300]
        violations.append(({'kind': 'boxcar-trace', 'property': prop, 'clauses': clauses, 'run': j['run'], 'scenario': j.get('scenario'),
                            'seed': seed(), 'tier': tier(), 'trace': run_excerpt(f, j['run'])}, txt))
    extra_cov = {}
    import boxmodel_stage
    bv, bcov, bs, bt = boxmodel_stage.run(prop, wd, files, thorough)
    violations += bv
    states += bs; trans += bt
    extra_cov.update(bcov)
    import conform_stage
    ccov, cs, ct = conform_stage.run_box(files, thorough)
    extra_cov.update(ccov)
    states += cs; trans += ct
    if prop in ('C09', 'C11'):
        # the same property at the level of the whole matcher (worker pool, snapshot, restart, handles)
        import nuc_props
        ngen, nfiles = nuc_props.explore(os.path.join(wd, 'nuc'), 8)
        nspec = 'MemModel.tla' if prop == 'C09' else 'NucleoTrace.tla'
        ntot, nstates, ntrans, njudged = run_trace_spec(nspec, nfiles, thorough)
        if ntot.get('runs') != ngen['runs']:
            die_tool('nucleo run count mismatch: harness %s, TLC %s' % (ngen['runs'], ntot.get('runs')))
        for f, j in njudged:
            clauses = [c for c in j['viol'] if prop == 'C09' or c in nuc_props.CLAUSES['C11']]
            key = ('n', j['run'], tuple(sorted(clauses)))
            if not clauses or key in seen_runs:
                continue
            seen_runs.add(key)
            txt = '%s in nucleo run %d (scenario %s) at event %s' % (','.join(sorted(clauses)), j['run'], j.get('scenario'), j.get('seq'))
            if 'event' in j:
                txt += ': ' + json.dumps(j['event'])[:300]
            violations.append(({'kind': 'nucleo-trace', 'property': prop, 'clauses': clauses, 'run': j['run'], 'scenario': j.get('scenario'),
                                'seed': seed(), 'tier': tier(), 'trace': nuc_props.excerpt(f, j['run'])}, txt))
        states += nstates; trans += ntrans
        extra_cov.update({'nucleo_level_schedules': ngen['runs'], 'nucleo_level_events_validated': ntot.get('events', 0),
                     'nucleo_level_scenarios': ngen['scenarios']})
        tot['runs'] = tot.get('runs', 0) + ntot.get('runs', 0)
        if prop == 'C11':
            import lifecycle_stage
            lv, lcov, ls, lt, ln = lifecycle_stage.run(prop, wd, thorough)
            violations += lv
            states += ls; trans += lt
            tot['runs'] += ln
            extra_cov.update(lcov)
    sample = run_excerpt(files[0], json.loads(open(files[0]).readline())['run'], 60)
    cov = {
        'states': states, 'transitions': trans,
        'traces_validated_against_impl': tot.get('runs', 0),
        'schedules_explored': gen['runs'], 'scenarios': gen['scenarios'],
        'events_validated': tot.get('events', 0),
        'evaluations': gen['runs'], 'distinct_nontrivial': gen['runs'] - gen['scenarios'],
        'rule': 'each scenario (2-3 threads of push / extend with honest, short and over-long iterators / panicking fill callbacks / get / count / snapshot iteration on one real boxcar::Vec, prefilled so that bucket boundaries and the eager-allocation index are crossed) is run once first-come-first-served and then under seeded random schedules decided at every atomic operation; non-trivial = the randomly scheduled runs',
        'samples': [sample], 'exhaustive': False,
    }
    cov.update({k: v for k, v in tot.items() if k not in ('runs', 'events', 'fails')})
    cov.update(extra_cov)
    finish(prop, 'model_checking', cov, violations, known, t0,
           assumptions=['the scheduler serialises instrumented operations; code between them runs freely',
                        'values are unique per run, so an observed (index, value) pair identifies its writer',
                        'C09: happens-before through thread spawn/join is axiomatic; only the library\'s own atomics are analysed with their declared orderings'])


if __name__ == '__main__':
    main(sys.argv[1])
