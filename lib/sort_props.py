"""C18: call records of the crate-private parallel sort (through the cfg-gated facade) validated against
spec/ParSort.tla, plus the uniqueness / strict-weak-order lemmas (spec/ParSortMC.tla)."""
import json, os, sys, time, glob
from common import *
from trace_props import *

BRANCH_NAMES = ['insertion_sort', 'heapsort', 'break_patterns', 'partial_insertion_sort_done', 'partition_equal',
                'partition', 'unused', 'cancel_seen_in_recursion', 'parallel_join', 'cancelled_before_start']


def main(prop):
    t0 = time.time()
    thorough = tier() == 'thorough'
    wd = workdir(prop)
    build_harness()
    cfg = os.path.join(wd, 'ParSortMC.cfg')
    open(cfg, 'w').write(open(os.path.join(SPEC, 'ParSortMC.cfg')).read().replace('LQ = 5', 'LQ = %d' % (6 if thorough else 5)))
    rc, out = tlc('ParSortMC.tla', cfg=cfg, workers=NCPU, timeout=3000, xmx='8g')
    lem = tlc_stats(out)
    if tlc_failed(rc, out) or not lem['completed'] or 'is violated' in out:
        die_tool('ParSortMC: lemma violated (oracle defect)\n' + out[-3000:])
    # the order properties of the comparison for unbounded integers: TLAPS
    import subprocess, shutil, re
    pdir = os.path.join(wd, 'proof')
    shutil.rmtree(pdir, ignore_errors=True)
    os.makedirs(pdir)
    shutil.copy(os.path.join(SPEC, 'ParSortProof.tla'), pdir)
    pr = subprocess.run(['timeout', '900', 'tlapm', '--threads', '4', 'ParSortProof.tla'], cwd=pdir, stdout=subprocess.PIPE, stderr=subprocess.STDOUT, text=True)
    m = re.search(r'All (\d+) obligations? proved', pr.stdout)
    if pr.returncode != 0 or not m:
        die_tool('ParSortProof.tla: TLAPS did not prove the order lemmas (oracle defect)\n' + pr.stdout[-2000:])
    proved = int(m.group(1))
    tdir = os.path.join(wd, 'trace')
    p = nvh(['sort-trace', '--tier', tier(), '--seed', seed(), '--shards', NCPU, '--out', tdir], timeout=7200)
    gen = json.loads(p.stdout.strip().splitlines()[-1])
    files = sorted(glob.glob(os.path.join(tdir, 'shard-*.ndjson')))
    outs = run_shards('ParSort.tla', files, {}, timeout=7000 if thorough else 1200, xmx='6g', parallel=8 if thorough else None)
    violations, tot, states, trans, want, judged = [], {'calls': 0, 'elements': 0, 'cancelled': 0, 'complete': 0, 'fails': 0}, 0, 0, {}, {}
    for f, st, lines in outs:
        states += st['distinct']; trans += st['generated']
        for j in lines:
            if j.get('ev') == 'DONE':
                for k in tot:
                    tot[k] += j['stat'][k]
            elif j.get('ev') == 'JUDGE':
                want.setdefault(f, set()).add(j['id'])
                judged[(f, j['id'])] = j
    if tot['calls'] != gen['records']:
        die_tool('record count mismatch: harness %d, TLC %d' % (gen['records'], tot['calls']))
    # branch coverage measured by the cfg-gated counters
    branches = [0] * 10
    sample = None
    for f in files:
        with open(f) as fh:
            for l in fh:
                r = json.loads(l)
                for k, b in enumerate(r['branches']):
                    branches[k] += 1 if b else 0
                if sample is None and 5 < r['n'] < 40 and r['explicit']:
                    sample = r
    recs = fetch_records(want)
    for key, j in sorted(judged.items(), key=lambda x: x[0][1]):
        r = recs.get(key, {})
        txt = '%s: family=%s n=%s threads=%s raise_at=%s raised=%s reported_cancelled=%s out[:12]=%s' % (
            ','.join(sorted(j['viol'])), r.get('fam'), r.get('n'), r.get('threads'), r.get('raise_at'), r.get('raised'), r.get('reported'), r.get('out', [])[:12])
        if len(r.get('out', [])) > 300:
            r = dict(r, out=r['out'][:300] + ['...'], keys=r['keys'][:300])
        violations.append(({'kind': 'sort-call', 'property': prop, 'clauses': j['viol'], 'record': r, 'seed': seed(), 'tier': tier()}, txt))
    # the worker's own comparison: complete runs of the real worker for every thread count
    wdir = os.path.join(wd, 'worker')
    import shutil as _sh
    _sh.rmtree(wdir, ignore_errors=True)
    p = nvh(['worker-order', '--tier', tier(), '--seed', seed(), '--shards', NCPU, '--out', wdir], timeout=7200, check=False)
    crashed = None
    if p.returncode != 0:
        # a panic on a pool thread makes rayon abort the process: that is an outcome of the code under test
        mk = os.path.join(wdir, 'current.json')
        crashed = json.load(open(mk)) if os.path.exists(mk) else {'what': 'unknown'}
        crashed['stderr'] = p.stderr[-600:]
        wgen = {'records': None}
    else:
        wgen = json.loads(p.stdout.strip().splitlines()[-1])
    wfiles = [f for f in sorted(glob.glob(os.path.join(wdir, 'worker-*.ndjson'))) if os.path.getsize(f) > 0]
    wouts = run_shards('WorkerOrder.tla', wfiles, {}, timeout=7000 if thorough else 1200, xmx='4g')
    wtot, wwant, wjudged = {'runs': 0, 'fails': 0, 'matches': 0, 'ties': 0}, {}, {}
    for f, st, lines in wouts:
        states += st['distinct']; trans += st['generated']
        for j in lines:
            if j.get('ev') == 'DONE':
                for k in wtot:
                    wtot[k] += j['stat'][k]
            elif j.get('ev') == 'JUDGE':
                wwant.setdefault(f, set()).add(j['id'])
                wjudged[(f, j['id'])] = j
    if crashed:
        violations.append(({'kind': 'worker-order-crash', 'property': prop, 'clauses': ['library_crashed_during_worker_run'], 'run': crashed, 'seed': seed(), 'tier': tier()},
                           'library_crashed_during_worker_run: %s with pattern %r on %s items, %s threads: %s' % (crashed.get('what'), crashed.get('pattern'), crashed.get('n'), crashed.get('threads'), (crashed.get('stderr') or '').strip().splitlines()[-1:] or '')))
    elif wtot['runs'] != wgen['records']:
        die_tool('worker-order record count mismatch: harness %d, TLC %d' % (wgen['records'], wtot['runs']))
    wrecs = fetch_records(wwant)
    for key, j in sorted(wjudged.items(), key=lambda x: x[0][1]):
        r = wrecs.get(key, {})
        txt = '%s: worker run with pattern %r on %s items, %s threads published matches[:10]=%s' % (
            ','.join(sorted(j['viol'])), r.get('pattern'), r.get('n'), r.get('threads'), r.get('matches', [])[:10])
        if len(r.get('matches', [])) > 300:
            r = dict(r, matches=r['matches'][:300] + ['...'], items=r['items'][:300] + ['...'])
        violations.append(({'kind': 'worker-order', 'property': prop, 'clauses': j['viol'], 'record': r, 'seed': seed(), 'tier': tier()}, txt))
    cov = {
        'tlaps_obligations_proved': proved,
        'worker_runs_validated': wtot['runs'], 'worker_matches_compared': wtot['matches'], 'worker_adjacent_score_ties': wtot['ties'],
        'states': states + lem['distinct'], 'transitions': trans + lem['generated'],
        'traces_validated_against_impl': len(files) + len(wfiles),
        'sort_calls_validated': tot['calls'], 'elements_sorted': tot['elements'],
        'calls_reporting_cancelled': tot['cancelled'], 'calls_completing_nontrivial': tot['complete'],
        'calls_reaching_branch': dict(zip(BRANCH_NAMES, branches)),
        'evaluations': tot['calls'], 'distinct_nontrivial': tot['complete'] + tot['cancelled'],
        'rule': 'lengths 0..64 exhaustively for 7 arrangement families x {1,4} threads; lengths 100..%s x 7 families x {1,2,4,8} threads; adversarial (randomised McIlroy) inputs that reach the heapsort fallback; cancel flag raised before the call and at the k-th comparison for a geometric grid of k; distinct by (family, n, parameters, threads, cancel moment); non-trivial = n > 1 and completed, or cancelled; plus complete runs of the real worker (9 patterns incl. exclusion-only ones x item sets of 0..%s texts with many score/length ties x {1,2,3,8} threads) whose published order must be the unique documented total order' % ('300000' if thorough else '50000', '10000' if thorough else '1000'),
        'samples': [sample] if sample else first_samples(files, maxlen=10**6), 'exhaustive': False,
    }
    finish(prop, 'model_checking', cov, violations, {}, t0,
           assumptions=['the sort is observed at call granularity; its raw-pointer internals are exercised, their effects judged',
                        'facade calls use a replica of the worker\'s closure (score, placeholder, length, index); the closure itself is exercised by the worker-order runs'])


if __name__ == '__main__':
    main(sys.argv[1])
