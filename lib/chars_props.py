"""C16: the complete dumped graph of the three public character maps + probe disagreements, judged by
spec/CharsCheck.tla against reference Unicode data (exhaustive over the finite domain)."""
import json, os, sys, time, subprocess
from common import *


def main(prop):
    t0 = time.time()
    wd = workdir(prop)
    build_harness()
    dump = os.path.join(wd, 'charsdump.ndjson')
    ref = os.path.join(wd, 'unicoderef.ndjson')
    p = nvh(['chars-dump', '--out', dump])
    gen = json.loads(p.stdout.strip().splitlines()[-1])
    r = subprocess.run([sys.executable, os.path.join(ROOT, 'lib', 'unicoderef.py'), ref], capture_output=True, text=True)
    if r.returncode != 0:
        die_tool('unicoderef.py failed: ' + r.stderr[-500:])
    rc, out = tlc('CharsCheck.tla', env={'DUMP': dump, 'REF': ref}, workers=1, timeout=1200, xmx='4g')
    err = tlc_failed(rc, out)
    st = tlc_stats(out)
    if err or not st['completed']:
        die_tool('CharsCheck: %s\n%s' % (err, out[-2000:]))
    violations, known, done, samples = [], {}, None, []
    for j in json_lines(out):
        if j.get('ev') == 'DONE':
            done = j['stat']
        elif j.get('ev') == 'JUDGE':
            for k in j['known']:
                known[k] = known.get(k, 0) + 1
            if j['viol']:
                e = j['entry']
                txt = '%s for U+%04X (%s)' % (', '.join(j['viol']), e.get('c', 0), json.dumps(e))
                violations.append(({'kind': 'chars-entry', 'property': prop, 'entry': e, 'clauses': j['viol']}, txt))
    if done is None:
        die_tool('CharsCheck: no DONE line')
    with open(dump) as fh:
        lines = fh.readlines()
    samples = [json.loads(lines[k]) for k in (0, len(lines) // 2, len(lines) - 1)]
    cov = {
        'states': st['distinct'], 'transitions': st['generated'],
        'traces_validated_against_impl': 1,
        'scalar_values_scanned': gen['scanned'], 'probe_matches_executed': gen['probes'],
        'probe_disagreements': gen['disagreements'], 'dump_entries_judged': done['entries'],
        'fold_entries_unchecked_unassigned_in_reference': done['unchecked'],
        'evaluations': gen['scanned'], 'distinct_nontrivial': done['entries'],
        'rule': 'all 1,112,064 scalar values are scanned; non-trivial = a scalar on which one of the three maps is not the identity or a probe disagrees (each a dump entry judged by TLC)',
        'samples': samples, 'exhaustive': True,
    }
    finish(prop, 'model_checking', cov, violations, known, t0,
           assumptions=['reference simple case folding / NFKD data: Python unicodedata (Unicode 14.0); code points unassigned there are reported as unchecked',
                        'the probes observe the internal routines only through match results'])


if __name__ == '__main__':
    main(sys.argv[1])
