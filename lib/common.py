"""Shared driver helpers: harness build, TLC runner, output parsing, verdict/evidence writing."""
import json, os, re, subprocess, sys, time, shutil, concurrent.futures

ROOT = os.path.dirname(os.path.dirname(os.path.abspath(__file__)))
WORK = os.path.join(ROOT, 'work')
SPEC = os.path.join(ROOT, 'spec')
HARNESS = os.path.join(ROOT, 'harness')
NVH = os.path.join(HARNESS, 'target', 'release', 'nvh')
TLA_CP = '/opt/veriftools/tla/tla2tools.jar:/opt/veriftools/tla/CommunityModules-deps.jar'
NCPU = os.cpu_count() or 8


class ToolError(Exception):
    pass


def die_tool(msg):
    """exit code 2 = tool error / timeout (never a verdict)"""
    print('TOOL-ERROR: ' + msg, flush=True)
    sys.exit(2)


def tier():
    t = os.environ.get('VERIF_TIER', 'quick')
    for i, a in enumerate(sys.argv):
        if a == '--tier' and i + 1 < len(sys.argv):
            t = sys.argv[i + 1]
    return t if t in ('quick', 'thorough') else 'quick'


def seed():
    try:
        return int(os.environ.get('VERIF_SEED', '1'))
    except ValueError:
        return 1


def workdir(name):
    d = os.path.join(WORK, name)
    shutil.rmtree(d, ignore_errors=True)
    os.makedirs(d, exist_ok=True)
    return d


def build_harness():
    """(Re)build the harness against /repo's current working tree with the hooks enabled."""
    t0 = time.time()
    env = dict(os.environ, CARGO_NET_OFFLINE='true')
    p = subprocess.run(['cargo', 'build', '--release', '--offline'], cwd=HARNESS, env=env,
                       stdout=subprocess.PIPE, stderr=subprocess.STDOUT, text=True)
    if p.returncode != 0:
        tail = '\n'.join(p.stdout.splitlines()[-40:])
        die_tool('harness build failed (is /repo compiling with --cfg nucleo_verif?)\n' + tail)
    return time.time() - t0


def nvh(args, timeout=3600, env=None, check=True):
    e = dict(os.environ)
    if env:
        e.update(env)
    p = subprocess.run([NVH] + [str(a) for a in args], stdout=subprocess.PIPE, stderr=subprocess.PIPE,
                       text=True, timeout=timeout, env=e)
    if check and p.returncode != 0:
        die_tool('harness %s failed rc=%d: %s' % (args[0], p.returncode, p.stderr[-2000:]))
    return p


def chardb():
    out = os.path.join(WORK, 'chardb.ndjson')
    nvh(['chardb', '--out', out, '--universe', os.path.join(ROOT, 'lib', 'universe.txt')])
    return out


def tlc(spec, cfg=None, env=None, workers=1, timeout=600, xmx='3g', xss='1g', extra=None, metadir=None,
        deque=False):
    """Run TLC; returns (rc, stdout). rc 124 = timeout."""
    spec_path = spec if os.path.isabs(spec) else os.path.join(SPEC, spec)
    cfg_path = cfg or (spec_path[:-4] + '.cfg')
    if not os.path.isabs(cfg_path):
        cfg_path = os.path.join(SPEC, cfg_path)
    md = metadir or os.path.join(WORK, 'tlc', '%d-%d' % (os.getpid(), int(time.time() * 1e6) % 10**9))
    os.makedirs(md, exist_ok=True)
    # many single-worker JVMs run side by side: a parallel collector with 16 GC threads each thrashes
    gc = '-XX:+UseParallelGC' if workers > 2 else '-XX:+UseSerialGC'
    # TLC unpacks its standard modules into java.io.tmpdir on every start: keep that inside the (removed) metadir
    cmd = ['timeout', str(int(timeout)), 'java', gc, '-XX:TieredStopAtLevel=4', '-Xmx' + xmx, '-Xss' + xss, '-Djava.io.tmpdir=' + md]
    if deque:
        cmd.append('-Dtlc2.tool.queue.IStateQueue=StateDeque')
    cmd += ['-cp', TLA_CP, 'tlc2.TLC', '-workers', str(workers), '-metadir', md, '-cleanup',
            '-noGenerateSpecTE', '-config', cfg_path]
    if extra:
        cmd += extra
    cmd.append(spec_path)
    e = dict(os.environ)
    e.pop('JAVA_TOOL_OPTIONS', None)
    if env:
        e.update({k: str(v) for k, v in env.items()})
    p = subprocess.run(cmd, stdout=subprocess.PIPE, stderr=subprocess.STDOUT, text=True, env=e, cwd=SPEC)
    shutil.rmtree(md, ignore_errors=True)
    return p.returncode, p.stdout


def tlc_many(jobs, parallel=None):
    """jobs: list of kwargs dicts for tlc(); runs them in parallel processes; returns list of (rc, out)."""
    parallel = parallel or NCPU
    with concurrent.futures.ThreadPoolExecutor(max_workers=parallel) as ex:
        futs = [ex.submit(lambda kw=kw: tlc(**kw)) for kw in jobs]
        return [f.result() for f in futs]


def json_lines(out):
    """Lines printed by PrintT(ToJson(..)): a JSON string containing JSON."""
    res = []
    for l in out.splitlines():
        if l.startswith('"{') or l.startswith('"['):
            try:
                res.append(json.loads(json.loads(l)))
            except Exception:
                pass
    return res


_re_states = re.compile(r'(\d+) states generated, (\d+) distinct states found, (\d+) states left on queue')
_re_depth = re.compile(r'The depth of the complete state graph search is (\d+)')


def tlc_stats(out):
    m = None
    for m in _re_states.finditer(out):
        pass
    gen, dist, left = (int(m.group(1)), int(m.group(2)), int(m.group(3))) if m else (0, 0, 0)
    d = _re_depth.search(out)
    return {'generated': gen, 'distinct': dist, 'left': left, 'depth': int(d.group(1)) if d else 0,
            'completed': 'Model checking completed' in out}


def tlc_failed(rc, out):
    """TLC itself broke (parse error, exception, timeout) as opposed to reporting something."""
    if rc == 124:
        return 'timeout'
    if 'Parsing or semantic analysis failed' in out or '***Parse Error***' in out:
        return 'parse error'
    if 'Error: ' in out and 'Invariant' not in out and 'is violated' not in out and 'Deadlock' not in out:
        m = re.search(r'Error: (.*)', out)
        return 'tlc error: ' + (m.group(1) if m else '?')
    return None


_re_cov = re.compile(r'^<(\w+) line (\d+), col \d+ to line \d+, col \d+ of module (\w+)>: (\d+):(\d+)', re.M)


def coverage_actions(out):
    """-coverage 1 output: per-action (distinct, total) counts from the last coverage report."""
    res = {}
    for m in _re_cov.finditer(out):
        res[m.group(1)] = {'distinct': int(m.group(4)), 'generated': int(m.group(5))}
    return res


# ------------------------------------------------------------------------------------------------
# known findings

def load_known():
    p = os.path.join(ROOT, 'known_findings.json')
    if not os.path.exists(p):
        return {'findings': [], 'fixed': []}
    return json.load(open(p))


def known_ids_for(prop):
    return {f['id']: f for f in load_known().get('findings', []) if prop in f.get('properties', [])}


# ------------------------------------------------------------------------------------------------
# verdict

def write_replay(prop, name, payload):
    d = os.path.join(ROOT, 'replays')
    os.makedirs(d, exist_ok=True)
    path = os.path.join(d, '%s-%s.json' % (prop, name))
    json.dump(payload, open(path, 'w'), indent=1)
    return path


def finish(prop, level, coverage, violations, known_seen, t0, assumptions=None, extra=None):
    """violations: list of (replay_payload, short_text); known_seen: dict id -> count of matches.
    Writes evidence, prints verdict lines, exits 0/1."""
    listed = known_ids_for(prop)
    # a finding the machinery reports must be listed in the committed file, otherwise it is a violation
    for kid in list(known_seen):
        if kid not in listed:
            violations.append(({'unlisted_known_finding': kid}, 'finding %s is not listed in known_findings.json' % kid))
            del known_seen[kid]
    for kid, n in sorted(known_seen.items()):
        print('KNOWN-FINDING: property=%s %s: %s (matched %d time(s) in this run)' % (prop, kid, listed[kid]['what'], n))
    ev = {'property_id': prop, 'tier': tier(), 'seed': seed(), 'level': level, 'coverage': coverage,
          'assumptions': assumptions or [], 'wall_s': round(time.time() - t0, 1), 'violations': len(violations)}
    if extra:
        ev.update(extra)
    ev['coverage']['known_findings_matched'] = {k: v for k, v in known_seen.items()}
    os.makedirs(os.path.join(ROOT, 'evidence'), exist_ok=True)
    json.dump(ev, open(os.path.join(ROOT, 'evidence', prop + '.json'), 'w'), indent=1)
    if violations:
        seen = 0
        for k, (payload, text) in enumerate(violations[:20]):
            path = write_replay(prop, '%s-%d' % (tier(), k + 1), payload)
            print('VIOLATION property=%s replay=%s' % (prop, path))
            print('  ' + text)
            seen += 1
        if len(violations) > seen:
            print('  ... and %d more violations' % (len(violations) - seen))
        sys.exit(1)
    print('OK property=%s tier=%s (%.0fs)' % (prop, tier(), time.time() - t0))
    sys.exit(0)
