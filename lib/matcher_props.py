"""C01-C05, C10: the real Matcher's call records validated against spec/MatcherTrace.tla (impl -> spec),
plus the exhaustive check of the specification's own lemmas (spec/FzfMC.tla)."""
import json, os, sys, time, glob
from common import *

LEMMAS = {
    'C01': ['InvSubseqIffAligns', 'InvNaiveDecides', 'InvGreedyIsAlign'],
    'C02': ['InvGreedyIsAlign', 'InvSubstringIsAlign', 'InvAnchoredAreOccurrences'],
    'C03': ['InvGreedyScoreBelowBest', 'InvBonusRange'],
    'C04': ['InvNaiveBelowBest', 'InvOneChar', 'InvNaiveDecides'],
    'C05': ['InvSubstringIsAlign', 'InvAnchoredAreOccurrences'],
    'C10': [],
}


def run_slab_model(wd, thorough):
    cfg = os.path.join(wd, 'SlabLayoutMC.cfg')
    lens = '1..2048' if thorough else '{1, 2, 3, 4, 7, 10, 33, 50, 100, 319, 320, 321, 1000, 2047, 2048}'
    open(cfg, 'w').write('CONSTANT NeedleLens %s\nINIT Init\nNEXT Next\nINVARIANTS LayoutSafeAscii LayoutSafeUnicode WidthMonotone\nCHECK_DEADLOCK FALSE\n' % ('<- AllNeedleLens' if thorough else '= ' + lens))
    rc, out = tlc('SlabLayoutMC.tla', cfg=cfg, workers=NCPU, timeout=6000, xmx='8g')
    st = tlc_stats(out)
    if tlc_failed(rc, out) or not st['completed'] or 'is violated' in out:
        die_tool('SlabLayoutMC: the layout model violates its own invariant (oracle defect)\n' + out[-3000:])
    # the same statement for all sizes over the naturals: TLAPS
    import subprocess, shutil, re
    pdir = os.path.join(wd, 'slab-proof')
    shutil.rmtree(pdir, ignore_errors=True)
    os.makedirs(pdir)
    for f in ('SlabLayout.tla', 'SlabLayoutProof.tla'):
        shutil.copy(os.path.join(SPEC, f), pdir)
    pr = subprocess.run(['timeout', '1200', 'tlapm', '--threads', '8', 'SlabLayoutProof.tla'], cwd=pdir, stdout=subprocess.PIPE, stderr=subprocess.STDOUT, text=True)
    m = re.search(r'All (\d+) obligations? proved', pr.stdout)
    if pr.returncode != 0 or not m:
        die_tool('SlabLayoutProof.tla: TLAPS did not prove the layout theorem (oracle defect)\n' + pr.stdout[-2000:])
    st['tlaps_obligations_proved'] = int(m.group(1))
    st['invariants'] = ['LayoutSafeAscii', 'LayoutSafeUnicode', 'WidthMonotone']
    st['needle_lengths'] = lens
    return st


def run_lemmas(prop, wd, cdb, thorough):
    invs = LEMMAS[prop]
    if prop == 'C10':
        return run_slab_model(wd, thorough)
    if not invs:
        return None
    cfg = os.path.join(wd, 'FzfMC.cfg')
    open(cfg, 'w').write('CONSTANTS\n  Sigma = {97, 98, 65, 45, 47, 32}\n  LH = %d\n  LN = 3\nINIT Init\nNEXT Next\nINVARIANTS %s\nCHECK_DEADLOCK FALSE\n'
                         % (5 if thorough else 4, ' '.join(invs)))
    rc, out = tlc('FzfMC.tla', cfg=cfg, env={'CHARDB': cdb}, workers=NCPU, timeout=3000, xmx='8g', extra=['-coverage', '1'])
    err = tlc_failed(rc, out)
    if err:
        die_tool('FzfMC: ' + err + '\n' + out[-1500:])
    st = tlc_stats(out)
    if not st['completed'] or 'is violated' in out:
        # the specification's own lemma fails: the oracle is wrong, not the code
        die_tool('FzfMC: a lemma of the specification is violated (oracle defect, not a verdict)\n' + out[-3000:])
    st['invariants'] = invs
    st['needles_per_state'] = 155
    return st


def main(prop):
    t0 = time.time()
    thorough = tier() == 'thorough'
    wd = workdir(prop)
    build_harness()
    cdb = chardb()
    lem = run_lemmas(prop, wd, cdb, thorough)
    tdir = os.path.join(wd, 'trace')
    shards = NCPU
    p = nvh(['matcher-trace', '--tier', tier(), '--seed', seed(), '--shards', shards, '--out', tdir, '--universe', os.path.join(ROOT, 'lib', 'universe.txt')], timeout=7200)
    gen = json.loads(p.stdout.strip().splitlines()[-1])
    env = {k: '0' for k in ['C01', 'C02', 'C03', 'C04', 'C05', 'C10']}
    env[prop] = '1'
    env['CHARDB'] = cdb
    env['NAIVEMAX'] = '110000' if thorough else '30000'
    env['NAIVESTRIDE'] = '5' if thorough else '1'
    jobs = []
    files = sorted(glob.glob(os.path.join(tdir, 'shard-*.ndjson')))
    for f in files:
        e = dict(env, TRACE=f)
        jobs.append(dict(spec='MatcherTrace.tla', env=e, workers=1, timeout=14000 if thorough else 1500, xmx='3g'))
    res = tlc_many(jobs)
    violations = []
    known = {}
    tot = {'records': 0, 'blocks': 0, 'positive': 0, 'fails': 0, 'known': 0}
    states = trans = 0
    bad_ids = {}
    drift = []
    for f, (rc, out) in zip(files, res):
        err = tlc_failed(rc, out)
        st = tlc_stats(out)
        if err or not st['completed']:
            die_tool('MatcherTrace on %s: %s\n%s' % (f, err, out[-2000:]))
        states += st['distinct']
        trans += st['generated']
        done = None
        for j in json_lines(out):
            if j.get('ev') == 'DONE':
                done = j['stat']
            elif j.get('ev') == 'JUDGE':
                for v in j['viol']:
                    if v[0] == prop:
                        bad_ids.setdefault((f, j['id']), []).append(v)
                    elif v[0] == 'DRIFT' and prop == 'C10':
                        drift.append((j['id'], v[1]))
                for kf in j['known']:
                    if kf[0] == prop:
                        known[kf[1]] = known.get(kf[1], 0) + 1
        if done is None:
            die_tool('MatcherTrace on %s: no DONE line' % f)
        for k in tot:
            tot[k] += done[k]
    if drift:
        # the layout differs from SlabLayout.tla but every property clause held: not a violation
        print('MODEL-DRIFT: %d records whose slab layout differs from spec/SlabLayout.tla (first: record %s %s)' % (len(drift), drift[0][0], drift[0][1]))
    if tot['records'] != gen['records']:
        die_tool('record count mismatch: harness wrote %d, TLC consumed %d' % (gen['records'], tot['records']))
    # fetch the offending records for the replay files
    samples = []
    want = {}
    for (f, rid), vs in bad_ids.items():
        want.setdefault(f, {})[rid] = vs
    for f in files:
        w = want.get(f, {})
        with open(f) as fh:
            for k, l in enumerate(fh):
                if k < 2 and len(samples) < 4 and len(l) < 3000:
                    samples.append(json.loads(l))
                if not w:
                    if k >= 2:
                        break
                    continue
                r = json.loads(l)
                if r['id'] in w:
                    clauses = w[r['id']]
                    txt = '%s record %d fam=%s cfg(ic=%s,nz=%s,paths=%s) hay=%r needle=%r' % (
                        ', '.join('%s@block%d' % (c[1], c[2]) for c in clauses[:4]), r['id'], r['fam'], r['ic'], r['nz'], r['paths'],
                        ''.join(map(chr, r['hay']))[:60], ''.join(map(chr, r['needle']))[:40])
                    if len(r['hay']) > 400:
                        r = dict(r, hay=r['hay'][:400] + ['...truncated'], note='record truncated; regenerate with seed')
                    violations.append(({'kind': 'matcher-record', 'property': prop, 'seed': seed(), 'tier': tier(), 'clauses': clauses, 'record': r}, txt))
    cov = {
        'states': states + (lem['distinct'] if lem else 0),
        'transitions': trans + (lem['generated'] if lem else 0),
        'traces_validated_against_impl': len(files),
        'call_records_validated': tot['records'],
        'entry_point_calls_executed': gen['calls'],
        'blocks_judged': tot['blocks'],
        'evaluations': tot['records'],
        'distinct_nontrivial': tot['positive'],
        'rule': 'records are distinct (haystack, needle, ic, nz, paths) inputs from families E (exhaustive small, strided), R (seeded random over the universe U), L (size limits); non-trivial = the optimal fuzzy matcher reports a match (positive score) on the canonical block',
        'samples': samples[:3],
        'spec_lemmas': lem,
        'exhaustive': False,
    }
    finish(prop, 'model_checking', cov, violations, known, t0,
           assumptions=['needles are pre-normalised with the crate\'s public maps (documented precondition)',
                        'character classes come from rustc\'s char tables; fold/normalise columns from the crate\'s public maps (their correctness is C16)',
                        'TLC evaluates the TLA+ definitions faithfully'])


if __name__ == '__main__':
    main(sys.argv[1])
