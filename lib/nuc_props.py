"""C06 / C07 / C12 / C13 / C19 / C20 (and the matcher-level parts of C09 / C11): schedule exploration of the real
Nucleo under the controlled scheduler; traces validated by spec/NucleoTrace.tla (property monitors) and
spec/MemModel.tla."""
import json, os, sys, time, glob, subprocess, concurrent.futures
from common import *
from trace_props import *

CLAUSES = {
    'C06': {'match_refers_to_uninitialised_item', 'snapshot_pattern_unknown', 'item_appears_twice', 'match_for_item_never_injected',
            'match_index_differs_from_push_index', 'score_differs_from_pattern_score', 'matches_out_of_order', 'more_matches_than_items',
            'item_count_exceeds_processed_items', 'library_panicked', 'streams_mixed_in_one_snapshot', 'return_without_call'},
    # a worker that panics never converges (the run is lost, the lock poisoned for the event loop)
    'C07': {'quiescent_snapshot_has_stale_pattern', 'quiescent_item_count_differs_from_injected', 'quiescent_matches_differ_from_scratch', 'quiescent_order_differs_from_scratch',
            'library_panicked'},
    'C12': {'snapshot_not_empty_after_restart_clear', 'snapshot_changed_after_restart_before_new_run', 'old_stream_item_in_snapshot_of_new_stream',
            'item_count_includes_old_stream', 'streams_mixed_in_one_snapshot', 'item_appears_twice_after_restart',
            'library_crashed_before_first_snapshot_of_new_stream'},
    'C13': {'lost_wakeup_tick_reported_running_but_no_notify_followed', 'push_did_not_notify', 'push_notified_before_item_visible'},
    'C19': {'changed_false_but_snapshot_differs', 'running_false_but_completed_push_missing', 'running_false_but_pattern_stale'},
    'C20': {'active_injectors_wrong', 'panic_while_reading_snapshot_or_handle_count'},
    'C11': {'item_dropped_while_injector_alive', 'item_of_current_stream_dropped_while_matcher_alive', 'item_dropped_while_snapshot_shows_it',
            'item_dropped_twice', 'item_leaked_or_invented'},
}
KNOWN_PROP = {}


def explore(wd, shards, extra=None, cmd='nucleo-sched'):
    """one child process per shard (a panic in the worker pool aborts the process: the partial trace with an
    abort event is the recorded outcome, the shard is resumed after the aborted run)"""
    tdir = os.path.join(wd, 'trace')
    os.makedirs(tdir, exist_ok=True)

    def one(k):
        frm, total, aborted = 0, None, 0
        for _ in range(60):
            p = nvh([cmd, '--tier', tier(), '--seed', seed(), '--shards', shards, '--shard', k, '--out', tdir, '--from', frm] + (extra or []),
                    timeout=7200, check=False)
            last = p.stdout.strip().splitlines()[-1] if p.stdout.strip() else '{}'
            try:
                j = json.loads(last)
            except Exception:
                j = {}
            if p.returncode == 0 and 'runs' in j:
                return j, aborted
            if 'aborted_run' in j:
                aborted += 1
                frm = j['aborted_run'] + 1
                continue
            cur = os.path.join(tdir, 'shard-%02d.current' % k)
            if p.returncode != 0 and os.path.exists(cur):
                # the process died without reaching the panic hook (segfault, abort inside a destructor ...): the run
                # named by the marker is recorded as aborted and the shard resumes after it
                c = json.load(open(cur))
                with open(os.path.join(tdir, 'shard-%02d.ndjson' % k), 'a') as fh:
                    fh.write(json.dumps({'seq': 1, 'tid': 0, 'role': 'main', 'site': 'reset', 'run': c['run'], 'scenario': c['scenario'], 'items': []}) + '\n')
                    fh.write(json.dumps({'seq': 2, 'tid': 0, 'role': 'main', 'site': 'abort', 'run': c['run'],
                                         'msg': 'process died with status %d: %s' % (p.returncode, (p.stderr or '')[-200:].replace('\n', ' '))}) + '\n')
                aborted += 1
                frm = c['run'] + 1
                continue
            die_tool('%s shard %d failed rc=%d: %s %s' % (cmd, k, p.returncode, p.stdout[-500:], p.stderr[-1500:]))
        die_tool('nucleo-sched shard %d: too many aborted runs' % k)

    with concurrent.futures.ThreadPoolExecutor(max_workers=shards) as ex:
        res = list(ex.map(one, range(shards)))
    gen = res[0][0]
    gen['aborted_runs'] = sum(r[1] for r in res)
    return gen, sorted(glob.glob(os.path.join(tdir, 'shard-*.ndjson')))


def excerpt(f, run_id, maxlines=600):
    out, on = [], False
    with open(f) as fh:
        for l in fh:
            if '"site":"reset"' in l:
                on = ('"run":%d,' % run_id) in l
            if on:
                e = json.loads(l)
                if e['site'] in ('entry.read', 'matcher.use') or (e['site'] == 'atomic' and e.get('loc') in ('active', 'bucket', 'other')):
                    continue
                out.append(e)
                if len(out) >= maxlines:
                    break
    return out


def main(prop):
    t0 = time.time()
    thorough = tier() == 'thorough'
    wd = workdir(prop)
    build_harness()
    shards = 8
    gen, files = explore(wd, shards)
    spec = 'MemModel.tla' if prop == 'C09' else 'NucleoTrace.tla'
    outs = run_shards(spec, files, {}, timeout=7000 if thorough else 1200, xmx='4g')
    tot, states, trans = {}, 0, 0
    violations, known, seen = [], {}, set()
    for f, st, lines in outs:
        states += st['distinct']; trans += st['generated']
        for j in lines:
            if j.get('ev') == 'DONE':
                for k, v in j['stat'].items():
                    tot[k] = tot.get(k, 0) + v
            elif j.get('ev') == 'JUDGE':
                for kf in j.get('known', []):
                    if KNOWN_PROP.get(kf) == prop:
                        known[kf] = known.get(kf, 0) + 1
                clauses = [c for c in j['viol'] if prop == 'C09' or c in CLAUSES[prop]]
                key = (j['run'], tuple(sorted(clauses)))
                if not clauses or key in seen:
                    continue
                seen.add(key)
                txt = '%s in run %d (scenario %s) at event %s' % (','.join(sorted(clauses)), j['run'], j.get('scenario'), j.get('seq'))
                if 'event' in j:
                    txt += ': ' + json.dumps(j['event'])[:300]
                violations.append(({'kind': 'nucleo-trace', 'property': prop, 'clauses': clauses, 'run': j['run'], 'scenario': j.get('scenario'),
                                    'seed': seed(), 'tier': tier(), 'trace': excerpt(f, j['run'])}, txt))
    if tot.get('runs') != gen['runs']:
        die_tool('run count mismatch: harness %s, TLC %s' % (gen['runs'], tot.get('runs')))
    lcov = {}
    if prop in ('C06', 'C07', 'C12', 'C13', 'C19'):
        import protocol_stage
        pcov, ps, pt = protocol_stage.run(prop, wd, thorough)
        lcov.update(pcov)
        states += ps; trans += pt
        import conform_stage
        ccov, cs, ct = conform_stage.run(files, thorough)
        lcov.update(ccov)
        states += cs; trans += ct
    if prop == 'C06':
        # the same snapshot properties at scale, without the scheduler: fast typing over 20 000+ items, every snapshot the
        # UI gets to see while runs are cancelled (often inside the parallel sort) validated against the unique order
        sdir = os.path.join(wd, 'scale')
        import shutil as _sh
        _sh.rmtree(sdir, ignore_errors=True)
        p = nvh(['worker-order', '--tier', tier(), '--seed', seed(), '--shards', NCPU, '--out', sdir, '--stress-only', '1'], timeout=7200, check=False)
        scrashed = None
        if p.returncode != 0:
            mk = os.path.join(sdir, 'current.json')
            scrashed = json.load(open(mk)) if os.path.exists(mk) else {'what': 'unknown'}
            scrashed['stderr'] = p.stderr[-600:]
            sgen = {'records': None}
        else:
            sgen = json.loads(p.stdout.strip().splitlines()[-1])
        sfiles = [f for f in sorted(glob.glob(os.path.join(sdir, 'worker-*.ndjson'))) if os.path.getsize(f) > 0]
        souts = run_shards('WorkerOrder.tla', sfiles, {}, timeout=7000 if thorough else 1500, xmx='6g')
        stot, swant, sj = {'runs': 0, 'matches': 0}, {}, {}
        for f, st, lines in souts:
            states += st['distinct']; trans += st['generated']
            for j in lines:
                if j.get('ev') == 'DONE':
                    stot['runs'] += j['stat']['runs']; stot['matches'] += j['stat']['matches']
                elif j.get('ev') == 'JUDGE':
                    swant.setdefault(f, set()).add(j['id']); sj[(f, j['id'])] = j
        if scrashed:
            violations.append(({'kind': 'worker-order-crash', 'property': prop, 'clauses': ['library_panicked'], 'run': scrashed, 'seed': seed(), 'tier': tier()},
                               'library_panicked (process aborted) during %s over %s items, %s threads' % (scrashed.get('what'), scrashed.get('n'), scrashed.get('threads'))))
        elif stot['runs'] != sgen['records']:
            die_tool('scale stage record count mismatch: harness %d, TLC %d' % (sgen['records'], stot['runs']))
        srecs = fetch_records(swant)
        for key, j in sorted(sj.items(), key=lambda x: x[0][1]):
            r = srecs.get(key, {})
            txt = '%s: snapshot seen during fast typing over %s items (pattern %r, %s threads): count=%s, %d matches, first %s' % (
                ','.join(sorted(j['viol'])), r.get('n'), r.get('pattern'), r.get('threads'), r.get('count'), len(r.get('matches', [])), r.get('matches', [])[:6])
            r = dict(r, matches=r.get('matches', [])[:200] + ['...'], items=r.get('items', [])[:200] + ['...'])
            violations.append(({'kind': 'worker-order', 'property': prop, 'clauses': j['viol'], 'record': r, 'seed': seed(), 'tier': tier()}, txt))
        lcov.update({'scale_snapshots_validated': stot['runs'], 'scale_matches_compared': stot['matches']})
    if prop == 'C20':
        import lifecycle_stage
        lv, lcov2, ls, lt, ln = lifecycle_stage.run(prop, wd, thorough)
        lcov.update(lcov2)
        violations += lv
        states += ls; trans += lt
        tot['runs'] = tot.get('runs', 0) + ln
    first = json.loads(open(files[0]).readline())
    cov = {
        'states': states, 'transitions': trans,
        'traces_validated_against_impl': tot.get('runs', 0),
        'schedules_explored': gen['runs'], 'scenarios': gen['scenarios'], 'runs_aborted_by_library_panic': gen.get('aborted_runs', 0),
        'events_validated': tot.get('events', 0),
        'evaluations': gen['runs'], 'distinct_nontrivial': gen['runs'] - gen['scenarios'],
        'rule': 'each scenario (UI script of reparse / tick(timeout) / restart / injector handle operations / an event loop that ticks only when notified, 0-3 injector threads doing push and extend, 1-4 pool threads, 1-2 columns) is run once first-come-first-served and then under seeded random schedules decided at every atomic operation and protocol hook (with one role starved in half of them); non-trivial = the randomly scheduled runs',
        'samples': [excerpt(files[0], first['run'], 40)], 'exhaustive': False,
    }
    cov.update({k: v for k, v in tot.items() if k not in ('runs', 'events', 'fails')})
    cov.update(lcov)
    finish(prop, 'model_checking', cov, violations, known, t0,
           assumptions=['the scheduler serialises instrumented operations; code between them runs freely',
                        'reference scores in the trace header come from a fresh MultiPattern/Matcher (their correctness is C01-C05, C15)',
                        'timeouts are real time: a tick may time out or acquire the lock, the monitors accept both'])


if __name__ == '__main__':
    main(sys.argv[1])
