"""Demonstration that NucleoConform.tla is bound to the recorded values: single-field corruptions of recorded runs
(one changed value, one removed protocol line) must each be rejected by the specification.
Used by conform_stage (a sample on every run of the check) and stand-alone:  conform_mutate.py <trace> [n]"""
import json, os, random, sys
from common import *

# (selector, mutation) pairs: what is corrupted and how
def candidates(lines):
    c = []
    for k, l in enumerate(lines):
        e = json.loads(l)
        site, role = e['site'], e['role']
        if site == 'atomic' and e.get('op') == 'load' and role.startswith('pool') and e.get('loc') in ('canceled', 'should_notify', 'active'):
            c.append((k, 'flip the value returned by a worker load of %s' % e['loc'], ('val', 1 - e['val'])))
        if site == 'atomic' and e.get('op') == 'load' and role.startswith('pool') and e.get('loc') == 'inflight' and e.get('ord') == 'acq':
            c.append((k, 'change the count read by the worker', ('val', e['val'] + 1)))
        if site == 'atomic' and e.get('op') == 'load' and role == 'main' and e.get('loc') == 'inflight':
            c.append((k, 'change the count read by tick', ('val', e['val'] + 1)))
        if site == 'atomic' and e.get('op') == 'fetch_add':
            c.append((k, 'change the index returned by fetch_add', ('val', e['val'] + 1)))
        if site in ('run.begin', 'run.end', 'run.notify_check', 'run.sort_end', 'tick.locked', 'tick.spawn', 'tick.end', 'tick.snapshot_update'):
            j = random.randrange(2 if site in ('tick.spawn', 'tick.end', 'tick.snapshot_update') else 3 if site in ('tick.locked', 'run.sort_end') else 4)
            a = list(e['a']); a[j] += 1
            c.append((k, 'change argument %d of hook %s' % (j, site), ('a', a)))
        if site == 'ret' and e.get('api') == 'tick':
            f = random.choice(['changed', 'running'])
            c.append((k, 'flip Status.%s returned by tick' % f, (f, not e[f])))
        if site == 'ret' and e.get('api') == 'dump':
            if e['matches']:
                m = [list(x) for x in e['matches']]
                if random.random() < 0.5:
                    m[random.randrange(len(m))][1] += 1
                    c.append((k, 'change a score in a dumped snapshot', ('matches', m)))
                else:
                    c.append((k, 'drop a match from a dumped snapshot', ('matches', m[:-1])))
            c.append((k, 'change the item count of a dumped snapshot', ('count', e['count'] + 1)))
        if site in ('tick.spawn', 'run.begin', 'run.sort_end', 'tick.try_lock_failed') or (site == 'notify' and role.startswith('pool')) \
                or (site == 'atomic' and e.get('op') in ('store', 'fetch_add') and e.get('loc') in ('canceled', 'should_notify', 'active', 'inflight')):
            c.append((k, 'remove the %s line of %s' % (site + ('/' + e.get('loc', '') if site == 'atomic' else ''), role), None))
    return c


def candidates_box(lines):
    """corruptions of a recorded boxcar::Vec run (BoxcarConform.tla)"""
    c = []
    for k, l in enumerate(lines):
        e = json.loads(l)
        site = e['site']
        if site == 'atomic' and e.get('loc') == 'active' and e.get('op') == 'load':
            c.append((k, 'flip the value returned by a load of an active flag', ('val', 1 - e['val'])))
        if site == 'atomic' and e.get('loc') == 'bucket' and e.get('op') == 'load':
            c.append((k, 'flip null / non-null of a loaded bucket pointer', ('val', 1 - e['val'])))
        if site == 'atomic' and e.get('loc') == 'bucket' and e.get('op') == 'cas':
            c.append((k, 'flip the outcome of a bucket compare_exchange', ('ok', not e['ok'])))
        if site == 'atomic' and e.get('loc') == 'inflight':
            c.append((k, 'change the value returned by inflight.%s' % e['op'], ('val', e['val'] + 1)))
        if site == 'atomic' and e.get('op') in ('load', 'store', 'fetch_add') and e.get('loc') in ('active', 'bucket', 'inflight'):
            c.append((k, 'change the declared ordering of %s.%s' % (e['loc'], e['op']), ('ord', 'rlx' if e['ord'] != 'rlx' else 'acq')))
        if site == 'ret' and e.get('api') == 'push':
            c.append((k, 'change the index returned by push', ('idx', e['idx'] + 1)))
        if site == 'ret' and e.get('api') == 'count':
            c.append((k, 'change the value returned by count', ('res', e['res'] + 1)))
        if site == 'ret' and e.get('api') == 'get' and e['res'].get('some'):
            r = dict(e['res']); r['v'] = r['v'] + 1
            c.append((k, 'change the value returned by get', ('res', r)))
        if site in ('entry.write', 'entry.read') and e.get('i', -1) >= 0:
            c.append((k, 'change the entry of %s' % site, ('i', e['i'] + 1)))
        if site in ('entry.write', 'bucket.alloc') and e['role'] != 'main' or (site == 'atomic' and e.get('op') in ('store', 'fetch_add', 'cas')):
            c.append((k, 'remove the %s line of %s' % (site + ('/' + e.get('loc', '') if site == 'atomic' else ''), e['role']), None))
    return c


def split_runs(path):
    runs, cur = [], []
    for l in open(path):
        if '"site":"reset"' in l and cur:
            runs.append(cur); cur = []
        cur.append(l)
    if cur:
        runs.append(cur)
    return runs


def demo(files, n, wd, rng_seed=1, spec='NucleoConform.tla', cand=None):
    random.seed(rng_seed)
    os.makedirs(wd, exist_ok=True)
    runs = []
    for f in files:
        runs += split_runs(f)
    outside = ('"site":"abort"', '"api":"snapshot"', '"api":"extend_panic"', '"api":"extend_huge"', '"api":"push_checked"', '"api":"mem_balance"', '"scenario":"big-bucket-race"')
    runs = [r for r in runs if 30 < len(r) < 1500 and not any(any(o in l for o in outside) for l in r)]
    jobs, meta = [], []
    for t in range(n):
        r = random.choice(runs)
        c = (cand or candidates)(r)
        if not c:
            continue
        k, what, mut = random.choice(c)
        out = list(r)
        if mut is None:
            del out[k]
        else:
            e = json.loads(out[k]); e[mut[0]] = mut[1]; out[k] = json.dumps(e) + '\n'
        p = os.path.join(wd, 'corrupt-%03d.ndjson' % t)
        open(p, 'w').writelines(out)
        jobs.append(dict(spec=spec, env={'TRACE': p}, workers=1, timeout=600, xmx='2g'))
        meta.append((p, what, json.loads(r[0]).get('scenario'), k))
    res = tlc_many(jobs)
    rejected, missed = 0, []
    for (p, what, sc, k), (rc, out) in zip(meta, res):
        js = json_lines(out)
        ok = any(j.get('ev') == 'DRIFT' for j in js) or 'is violated' in out or not any(j.get('ev') == 'DONE' for j in js)
        if ok:
            rejected += 1
            os.remove(p)
        else:
            missed.append('%s (scenario %s, line %d) kept in %s' % (what, sc, k + 1, p))
    return len(meta), rejected, missed


if __name__ == '__main__':
    box = 'box' in sys.argv[1]
    n, rej, missed = demo(sys.argv[1:2], int(sys.argv[2]) if len(sys.argv) > 2 else 32, os.path.join(WORK, 'conform-mutate'),
                          spec='BoxcarConform.tla' if box else 'NucleoConform.tla', cand=candidates_box if box else None)
    print('corruptions tried %d, rejected %d' % (n, rej))
    for m in missed:
        print('NOT REJECTED:', m)
