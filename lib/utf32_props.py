"""C17: conversion records validated against spec/Utf32.tla + spec/Graphemes.tla via spec/Utf32Trace.tla,
plus the rule machine's lemmas (spec/GraphemesMC.tla)."""
import json, os, sys, time, glob
from common import *
from trace_props import *


def main(prop):
    t0 = time.time()
    thorough = tier() == 'thorough'
    wd = workdir(prop)
    build_harness()
    cfg = os.path.join(wd, 'GraphemesMC.cfg')
    open(cfg, 'w').write(open(os.path.join(SPEC, 'GraphemesMC.cfg')).read().replace('LG = 4', 'LG = %d' % (5 if thorough else 4)))
    rc, out = tlc('GraphemesMC.tla', cfg=cfg, workers=NCPU, timeout=3000, xmx='8g')
    lem = tlc_stats(out)
    if tlc_failed(rc, out) or not lem['completed'] or 'is violated' in out:
        die_tool('GraphemesMC: the rule machine violates its own lemma (oracle defect)\n' + out[-3000:])
    tdir = os.path.join(wd, 'trace')
    p = nvh(['utf32-trace', '--tier', tier(), '--seed', seed(), '--shards', NCPU, '--out', tdir])
    gen = json.loads(p.stdout.strip().splitlines()[-1])
    files = sorted(glob.glob(os.path.join(tdir, 'shard-*.ndjson')))
    outs = run_shards('Utf32Trace.tla', files, {}, timeout=7000 if thorough else 900, xmx='4g')
    violations, tot, states, trans, want, judged = [], {'records': 0, 'multi': 0, 'slices': 0, 'fails': 0}, 0, 0, {}, {}
    for f, st, lines in outs:
        states += st['distinct']; trans += st['generated']
        for j in lines:
            if j.get('ev') == 'DONE':
                for k in tot:
                    tot[k] += j['stat'][k]
            elif j.get('ev') == 'JUDGE':
                want.setdefault(f, set()).add(j['id'])
                judged[(f, j['id'])] = j
    if tot['records'] != gen['records']:
        die_tool('record count mismatch: harness %d, TLC %d' % (gen['records'], tot['records']))
    recs = fetch_records(want)
    for key, j in sorted(judged.items(), key=lambda x: x[0][1]):
        r = recs.get(key, {})
        r.pop('slices', None)
        txt = '%s: string %s (code points %s): documented content %s' % (
            ','.join(sorted(j['viol'])[:6]), ascii(''.join(map(chr, r.get('s', [])))), r.get('s'), json.dumps(j.get('expected')))
        violations.append(({'kind': 'utf32-record', 'property': prop, 'clauses': j['viol'], 'record': r, 'expected': j.get('expected')}, txt))
    s = first_samples(files, maxlen=10**7)
    for x in s:
        x['slices'] = x['slices'][:3]
    cov = {
        'states': states + lem['distinct'], 'transitions': trans + lem['generated'],
        'traces_validated_against_impl': len(files),
        'conversion_records_validated': tot['records'], 'slice_calls_validated': tot['slices'],
        'evaluations': tot['records'], 'distinct_nontrivial': tot['multi'],
        'rule': 'every string of length <= %d (and a seeded 1/%d of length %d) over 33 segmentation-relevant code points, plus random strings of length 4-10; distinct by construction; non-trivial = the string has fewer grapheme clusters than code points' % ((3, 12, 4) if thorough else (2, 4, 3)),
        'samples': s, 'exhaustive': False,
    }
    finish(prop, 'model_checking', cov, violations, {}, t0,
           assumptions=['Grapheme_Cluster_Break / InCB classes are hand-assigned for the 33 code points of the alphabet (identical in Unicode 15.1 and 16.0)',
                        'constructor content is read through the public enum variants, accessor results through the accessors'])


if __name__ == '__main__':
    main(sys.argv[1])
