--------------------------- MODULE ParSortProof ---------------------------
(***************************************************************************)
(* The worker's comparison (ParSort!Less) is a strict weak order on ALL    *)
(* keys <<score, length, index>> over the integers, and a strict TOTAL     *)
(* order on real matches (index >= 0) with distinct indices -- proved with *)
(* TLAPS for unbounded integers (ParSortMC checks the same statements and  *)
(* the uniqueness of the sorted permutation exhaustively for small         *)
(* arrays).  Keys are written as three integers to keep the obligations    *)
(* first-order arithmetic.                                                 *)
(***************************************************************************)
EXTENDS Integers, TLAPS

\* Less(<<s1, l1, i1>>, <<s2, l2, i2>>)
Less(s1, l1, i1, s2, l2, i2) ==
  IF s1 # s2 THEN s1 > s2
  ELSE IF i1 < 0 THEN FALSE
  ELSE IF i2 < 0 THEN TRUE
  ELSE IF l1 = l2 THEN i1 < i2
  ELSE l1 < l2

THEOREM Irreflexive ==
  \A s \in Int, l \in Int, i \in Int : ~Less(s, l, i, s, l, i)
BY DEF Less

THEOREM Asymmetric ==
  \A s1 \in Int, l1 \in Int, i1 \in Int, s2 \in Int, l2 \in Int, i2 \in Int :
     Less(s1, l1, i1, s2, l2, i2) => ~Less(s2, l2, i2, s1, l1, i1)
BY DEF Less

THEOREM Transitive ==
  \A s1 \in Int, l1 \in Int, i1 \in Int, s2 \in Int, l2 \in Int, i2 \in Int, s3 \in Int, l3 \in Int, i3 \in Int :
     (Less(s1, l1, i1, s2, l2, i2) /\ Less(s2, l2, i2, s3, l3, i3)) => Less(s1, l1, i1, s3, l3, i3)
BY DEF Less

\* incomparability is transitive: together with the three above, a strict weak order
THEOREM IncomparabilityTransitive ==
  \A s1 \in Int, l1 \in Int, i1 \in Int, s2 \in Int, l2 \in Int, i2 \in Int, s3 \in Int, l3 \in Int, i3 \in Int :
     (  ~Less(s1, l1, i1, s2, l2, i2) /\ ~Less(s2, l2, i2, s1, l1, i1)
     /\ ~Less(s2, l2, i2, s3, l3, i3) /\ ~Less(s3, l3, i3, s2, l2, i2))
     => (~Less(s1, l1, i1, s3, l3, i3) /\ ~Less(s3, l3, i3, s1, l1, i1))
BY DEF Less

\* on real matches with distinct indices the order is total: the sorted permutation of a match list is unique,
\* so the result cannot depend on the number of threads
THEOREM TotalOnDistinctMatches ==
  \A s1 \in Int, l1 \in Int, i1 \in Int, s2 \in Int, l2 \in Int, i2 \in Int :
     (i1 >= 0 /\ i2 >= 0 /\ i1 # i2) => (Less(s1, l1, i1, s2, l2, i2) \/ Less(s2, l2, i2, s1, l1, i1))
BY DEF Less

\* placeholders (index < 0, score 0) come after every real match of the same score and are mutually incomparable
THEOREM PlaceholdersLast ==
  \A s \in Int, l1 \in Int, i1 \in Int, l2 \in Int, i2 \in Int :
     (i1 >= 0 /\ i2 < 0) => (Less(s, l1, i1, s, l2, i2) /\ ~Less(s, l2, i2, s, l1, i1))
BY DEF Less
=============================================================================
