CONSTANTS
  Sigma = {97, 98, 65, 45, 47, 32}
  LH = 4
  LN = 3
INIT Init
NEXT Next
INVARIANTS InvSubseqIffAligns InvNaiveBelowBest InvNaiveDecides InvOneChar InvGreedyIsAlign InvGreedyScoreBelowBest InvSubstringIsAlign InvAnchoredAreOccurrences InvBonusRange
CHECK_DEADLOCK FALSE
