---------------------------- MODULE PatternScore ----------------------------
(***************************************************************************)
(* Composition laws of pattern scoring (C15), independent of what a single *)
(* atom's matcher returns (that is C01-C05): a pattern is the conjunction  *)
(* of its atoms with negation, its score the sum of the positive atoms'    *)
(* scores, indices are appended per positive atom in atom order, a         *)
(* multi-column pattern is the conjunction over columns, match_list is the *)
(* stable descending sort of exactly the matching inputs.                  *)
(*                                                                         *)
(* An inner result is the un-negated outcome of one atom on one haystack   *)
(* obtained from a FRESH matcher: [s |-> score or -1, idx |-> indices].    *)
(***************************************************************************)
EXTENDS Integers, Sequences, FiniteSets, TLC, Json, IOUtils

\* result of one atom given its polarity: -1 = no match
AtomResult(neg, inner) == IF neg THEN (IF inner >= 0 THEN -1 ELSE 0) ELSE inner

RECURSIVE SumSeq(_, _)
SumSeq(q, k) == IF k > Len(q) THEN 0 ELSE q[k] + SumSeq(q, k + 1)

\* negs, inners: sequences over the atoms
PatternResult(negs, inners) ==
  LET res == [k \in 1..Len(negs) |-> AtomResult(negs[k], inners[k])] IN
  IF \E k \in 1..Len(res) : res[k] < 0 THEN -1 ELSE SumSeq(res, 1)

RECURSIVE ConcatIdx(_, _, _, _)
ConcatIdx(negs, idxs, order, k) ==   \* indices of the positive atoms, in the given atom order
  IF k > Len(order) THEN <<>>
  ELSE (IF negs[order[k]] THEN <<>> ELSE idxs[order[k]]) \o ConcatIdx(negs, idxs, order, k + 1)

\* columns: sequence of [negs, inners]; -1 if any column fails
MultiResult(cols) ==
  LET res == [c \in 1..Len(cols) |-> PatternResult(cols[c].negs, cols[c].inners)] IN
  IF \E c \in 1..Len(res) : res[c] < 0 THEN -1 ELSE SumSeq(res, 1)

\* match_list: items = sequence of scores (-1 = not matching), out = sequence of <<item position, score>>
IsStableDescendingSortOfMatches(items, out) ==
  /\ \A k \in 1..Len(out) : out[k][1] \in 1..Len(items) /\ items[out[k][1]] = out[k][2] /\ out[k][2] >= 0
  /\ \A p \in 1..Len(items) : items[p] >= 0 => Cardinality({k \in 1..Len(out) : out[k][1] = p}) = 1
  /\ Len(out) = Cardinality({p \in 1..Len(items) : items[p] >= 0})
  /\ \A k \in 1..Len(out) - 1 :
        \/ out[k][2] > out[k + 1][2]
        \/ out[k][2] = out[k + 1][2] /\ out[k][1] < out[k + 1][1]

(***************************************************************************)
(* Trace validation                                                        *)
(***************************************************************************)
SRec == ndJsonDeserialize(IOEnv.TRACE)
VARIABLES spos, sstat
svars == <<spos, sstat>>

Bad(cond, clause) == IF cond THEN {} ELSE {clause}
Negs(r) == [k \in 1..Len(r.atoms) |-> r.atoms[k].neg]
Inner(r) == [k \in 1..Len(r.inner) |-> r.inner[k].s]
Idxs(r) == [k \in 1..Len(r.inner) |-> r.inner[k].idx]
Identity(n) == [k \in 1..n |-> k]
Suffix(q, n) == SubSeq(q, n + 1, Len(q))

Fails(r) ==
  LET want == PatternResult(Negs(r), Inner(r))
      n == Len(r.atoms) IN
  IF r.panic THEN {"panic"} ELSE
  Bad(r.score = want, "score_conjunction_sum")
  \cup Bad(r.ind.s = want, "indices_variant_score")
  \cup Bad(Len(r.ind.after) >= Len(r.pre) /\ SubSeq(r.ind.after, 1, Len(r.pre)) = r.pre, "indices_prefix_kept")
  \cup (IF want >= 0 /\ Len(r.ind.after) >= Len(r.pre)
        THEN Bad(Suffix(r.ind.after, Len(r.pre)) = ConcatIdx(Negs(r), Idxs(r), Identity(n), 1), "indices_atom_order")
        ELSE {})
  \cup Bad(r.pscore = want, "order_dependent_score")
  \cup (IF want >= 0 THEN Bad(r.pind = ConcatIdx(Negs(r), Idxs(r), r.perm, 1), "order_dependent_indices") ELSE {})
  \cup Bad(r.multi = MultiResult([c \in 1..Len(r.cols) |-> [negs |-> Negs(r), inners |-> r.cols[c]]]), "multi_column_conjunction")
  \cup Bad(IsStableDescendingSortOfMatches(
             [p \in 1..Len(r.list.items) |-> PatternResult(Negs(r), r.list.items[p])], r.list.out), "pattern_match_list")
  \cup Bad(IsStableDescendingSortOfMatches(
             [p \in 1..Len(r.alist.items) |-> IF r.alist.empty THEN 0 ELSE AtomResult(r.alist.neg, r.alist.items[p])], r.alist.out), "atom_match_list")

Init == spos = 1 /\ sstat = [records |-> 0, fails |-> 0, matching |-> 0, negated |-> 0]

ScoreCall ==
  /\ spos <= Len(SRec)
  /\ LET r == SRec[spos]  F == Fails(r) IN
     /\ IF F = {} THEN TRUE ELSE PrintT(ToJson([ev |-> "JUDGE", id |-> r.id, viol |-> F]))
     /\ sstat' = [records |-> sstat.records + 1, fails |-> sstat.fails + (IF F = {} THEN 0 ELSE 1),
                  matching |-> sstat.matching + (IF ~r.panic /\ r.score >= 0 /\ Len(r.atoms) > 0 THEN 1 ELSE 0),
                  negated |-> sstat.negated + (IF \E k \in 1..Len(r.atoms) : r.atoms[k].neg THEN 1 ELSE 0)]
  /\ spos' = spos + 1

Done == spos > Len(SRec) /\ PrintT(ToJson([ev |-> "DONE", stat |-> sstat])) /\ UNCHANGED svars
Next == ScoreCall \/ Done
=============================================================================
