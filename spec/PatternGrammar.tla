--------------------------- MODULE PatternGrammar ---------------------------
(***************************************************************************)
(* The pattern syntax of nucleo_matcher::pattern as a function from text   *)
(* (a sequence of code points) to atoms, written from the documentation of *)
(* Pattern::parse / AtomKind and the statement of C14:                     *)
(*   - atoms are separated by whitespace that is not preceded by a         *)
(*     backslash; empty atoms are dropped;                                 *)
(*   - an optional leading `!` negates; then `^` (prefix) or `'`           *)
(*     (substring); a trailing `$` turns fuzzy into postfix and anything   *)
(*     else into exact; a backslash in front of one of these markers makes *)
(*     it literal (the backslash is removed);                              *)
(*   - a negated fuzzy atom is a substring atom;                           *)
(*   - inside the atom `\ ` is a space and EVERYTHING else is literal,     *)
(*     whether or not the atom contains non-ASCII characters;              *)
(*   - case: Ignore folds the needle, Smart ignores case iff the atom has  *)
(*     no upper-case character, Respect never ignores;                     *)
(*   - normalisation: Smart is on iff no needle character would itself be  *)
(*     normalised.                                                         *)
(* An atom is [needle, kind, neg, ic, nz] with kind in                     *)
(* {"F","S","P","O","E"} (fuzzy, substring, prefix, postfix, exact).       *)
(***************************************************************************)
EXTENDS Chars

Backslash == 92
Space == 32
Bang == 33
Caret == 94
Quote == 39
Dollar == 36

IsUpperChar(c) == Row[c].up          \* public chars::is_upper_case

\* An atom's needle is a Utf32String (C17): text that is not pure ASCII is stored as one code point per
\* extended grapheme cluster, so "the atom's characters" - what the escape, case and normalisation rules
\* talk about - are the cluster heads, not the raw code points.
GR == INSTANCE Graphemes
Stored(w) == IF \A k \in 1..Len(w) : w[k] < 128 THEN w ELSE GR!ClusterHeads(w)

(***************************************************************************)
(* splitting                                                               *)
(***************************************************************************)
RECURSIVE SplitRec(_, _, _, _, _)
SplitRec(t, k, saw, cur, acc) ==
  IF k > Len(t) THEN Append(acc, cur)
  ELSE LET c == t[k] IN
       IF IsWhite(c) /\ ~saw THEN SplitRec(t, k + 1, FALSE, <<>>, Append(acc, cur))
       ELSE SplitRec(t, k + 1, c = Backslash, Append(cur, c), acc)

SplitWords(t) == SplitRec(t, 1, FALSE, <<>>, <<>>)       \* may contain empty words

(***************************************************************************)
(* one atom                                                                *)
(***************************************************************************)
StartsWith(w, a) == Len(w) >= 1 /\ w[1] = a
StartsWith2(w, a, b) == Len(w) >= 2 /\ w[1] = a /\ w[2] \in b
EndsWith(w, a) == Len(w) >= 1 /\ w[Len(w)] = a
EndsWith2(w, a, b) == Len(w) >= 2 /\ w[Len(w) - 1] = a /\ w[Len(w)] = b
Drop(w, n) == SubSeq(w, n + 1, Len(w))
Chop(w, n) == SubSeq(w, 1, Len(w) - n)

\* every `\ ` becomes a space, left to right; everything else is literal
RECURSIVE Unescape(_, _)
Unescape(w, k) ==
  IF k > Len(w) THEN <<>>
  ELSE IF w[k] = Backslash /\ k < Len(w) /\ w[k + 1] = Space THEN <<Space>> \o Unescape(w, k + 2)
  ELSE <<w[k]>> \o Unescape(w, k + 1)

\* case / normalisation settings applied to the literal needle text
\* case in {"S","I","R"} (smart, ignore, respect); norm in {"S","N"} (smart, never)
Finish(lit, kind, neg, case, norm) ==
  LET nd == IF case = "I" THEN [k \in 1..Len(lit) |-> Fold(lit[k])] ELSE lit
      ic == IF case = "I" THEN TRUE
            ELSE IF case = "S" THEN \A k \in 1..Len(lit) : ~IsUpperChar(lit[k])
            ELSE FALSE
      nz == IF norm = "N" THEN FALSE ELSE \A k \in 1..Len(nd) : LatinNorm(nd[k]) = nd[k] IN
  [needle |-> nd, kind |-> kind, neg |-> neg, ic |-> ic, nz |-> nz]

\* Atom::new: no markers
NewAtom(w, kind, escape, case, norm) ==
  LET sw == Stored(w) IN Finish(IF escape THEN Unescape(sw, 1) ELSE sw, kind, FALSE, case, norm)

\* Atom::parse: markers
ParseAtom(w, case, norm) ==
  LET neg == StartsWith(w, Bang)
      w1 == IF neg THEN Drop(w, 1)
            ELSE IF StartsWith2(w, Backslash, {Bang}) THEN Drop(w, 1) ELSE w
      k1 == IF StartsWith(w1, Caret) THEN "P" ELSE IF StartsWith(w1, Quote) THEN "S" ELSE "F"
      w2 == IF k1 # "F" THEN Drop(w1, 1)
            ELSE IF StartsWith2(w1, Backslash, {Caret, Quote}) THEN Drop(w1, 1) ELSE w1
      litD == EndsWith2(w2, Backslash, Dollar)
      markD == ~litD /\ EndsWith(w2, Dollar)
      w3 == IF litD THEN Chop(w2, 2) ELSE IF markD THEN Chop(w2, 1) ELSE w2
      k2 == IF markD THEN (IF k1 = "F" THEN "O" ELSE "E") ELSE k1
      k3 == IF neg /\ k2 = "F" THEN "S" ELSE k2
      lit == Unescape(Stored(w3), 1) \o (IF litD THEN <<Dollar>> ELSE <<>>) IN
  Finish(lit, k3, neg, case, norm)

NonEmpty(as) == SelectSeq(as, LAMBDA a : a.needle # <<>>)

\* Pattern::parse / Pattern::reparse
Parse(t, case, norm) ==
  LET ws == SplitWords(t) IN NonEmpty([k \in 1..Len(ws) |-> ParseAtom(ws[k], case, norm)])

\* Pattern::new(kind)
ParseNew(t, kind, case, norm) ==
  LET ws == SplitWords(t) IN NonEmpty([k \in 1..Len(ws) |-> NewAtom(ws[k], kind, TRUE, case, norm)])

(***************************************************************************)
(* escaping a literal text, and the round-trip lemma                       *)
(***************************************************************************)
RECURSIVE EscSpaces(_, _)
EscSpaces(l, k) ==
  IF k > Len(l) THEN <<>>
  ELSE IF l[k] = Space THEN <<Backslash, Space>> \o EscSpaces(l, k + 1)
  ELSE <<l[k]>> \o EscSpaces(l, k + 1)

Escape(l) ==
  LET head == IF Len(l) >= 1 /\ l[1] \in {Bang, Caret, Quote} THEN <<Backslash>> ELSE <<>>
      body == EscSpaces(IF EndsWith(l, Dollar) THEN Chop(l, 1) ELSE l, 1)
      tail == IF EndsWith(l, Dollar) THEN <<Backslash, Dollar>> ELSE <<>> IN
  head \o body \o tail

\* literal texts the grammar can express: non-empty, the only whitespace is U+0020, and the text does
\* not begin with a backslash that would be read as escaping a marker
Expressible(l) ==
  /\ Len(l) >= 1
  /\ \A k \in 1..Len(l) : IsWhite(l[k]) => l[k] = Space
  /\ ~StartsWith2(l, Backslash, {Bang, Caret, Quote})

RoundTrip(l) ==
  Expressible(l) =>
     LET as == Parse(Escape(l), "R", "N") IN
     /\ Len(as) = 1
     /\ as[1].needle = l /\ as[1].kind = "F" /\ ~as[1].neg
=============================================================================
