INIT TraceInit
NEXT Next
CONSTANTS N = 48
          MaxStreams = 10
          SortInflight = TRUE
          Pats = {0, 1, 2, 3, 4, 5, 6, 7, 8, 9, 10, 11, 12, 13, 14, 15}
          Appendable = {0, 1, 2, 3, 5, 7, 10, 11, 12, 13, 14, 15}
INVARIANT ConformInv
CHECK_DEADLOCK FALSE
