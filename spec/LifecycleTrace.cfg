CONSTANTS MaxHandles = 10
          MaxRestarts = 10
          MaxCreated = 100
INIT TInit
NEXT TNext
CHECK_DEADLOCK FALSE
