--------------------------- MODULE LifecycleItems ---------------------------
(***************************************************************************)
(* Lifecycle extended by what the handles keep alive (C11 "destroyed       *)
(* exactly once - when the last handle that can reach its stream is gone,  *)
(* never earlier", C12 "old injectors keep accepting items without any     *)
(* effect on the matcher"):                                                *)
(*   items[s]   number of items pushed into stream s so far (through an    *)
(*              injector of that stream, old or current)                   *)
(*   alive      the matcher itself has not been dropped                    *)
(* and by three more operations of the public API: a push through any live *)
(* handle, update_config (takes the worker lock, changes nothing here) and *)
(* dropping the matcher while injector handles are still around.           *)
(* A stream is reachable while the matcher (as its current stream), its    *)
(* worker, its snapshot or any injector handle refers to it; the items of  *)
(* an unreachable stream have all been destroyed, those of a reachable one *)
(* are all intact.  LifecycleItemsGen prints one script per transition,    *)
(* LifecycleItemsTrace compares the per-stream destruction counts the real *)
(* code shows after EVERY step with Destroyed(s).                          *)
(***************************************************************************)
EXTENDS Lifecycle

CONSTANT MaxPush      \* pushes besides the one that accompanies every NewInjector

VARIABLES alive, items, pushes,
          runHeld    \* the run left behind by a timed-out tick has not finished yet (it still holds the worker lock)
xvars == <<cur, wstream, sstream, state, handles, nexth, pending, pendcur, alive, items, pushes, runHeld>>

StreamIds == 0..MaxRestarts

XInit == Init /\ alive = TRUE /\ items = [s \in StreamIds |-> 0] /\ pushes = 0 /\ runHeld = FALSE

XNew == /\ alive /\ NewInjector
        /\ items' = [items EXCEPT ![cur] = @ + 1]     \* the harness pushes one item through every new injector
        /\ UNCHANGED <<alive, pushes, runHeld>>
XClone(h) == CloneInjector(h) /\ UNCHANGED <<alive, items, pushes, runHeld>>
XDrop(h) == DropInjector(h) /\ UNCHANGED <<alive, items, pushes, runHeld>>
XPush(h) == /\ h \in Live /\ pushes < MaxPush
            /\ items' = [items EXCEPT ![StreamOfH(h)] = @ + 1] /\ pushes' = pushes + 1
            /\ UNCHANGED <<lvars, alive, runHeld>>
XRestart(c) == alive /\ Restart(c) /\ UNCHANGED <<alive, items, pushes, runHeld>>
\* Lifecycle!Tick(FALSE) on a fresh state means "the single lock attempt failed": that needs a run that still holds the
\* lock.  Once the run left behind has finished (update_config waited for it) the attempt can only succeed.
XTick(c) == /\ alive
            /\ (~c /\ state = "Fresh" /\ pending) => runHeld
            /\ Tick(c)
            /\ runHeld' = IF state # "Fresh" THEN ~c ELSE (IF c THEN FALSE ELSE runHeld)
            /\ UNCHANGED <<alive, items, pushes>>
XUpdateConfig == alive /\ runHeld' = FALSE /\ UNCHANGED <<lvars, alive, items, pushes>>   \* blocks on the worker lock
XDropMatcher == alive /\ alive' = FALSE /\ runHeld' = FALSE /\ UNCHANGED <<lvars, items, pushes>>   \* waits for the run

XNext == \/ XNew \/ XUpdateConfig \/ XDropMatcher
         \/ \E h \in Live : XClone(h) \/ XDrop(h) \/ XPush(h)
         \/ \E c \in BOOLEAN : XRestart(c) \/ XTick(c)

Reachable(s) == \/ alive /\ (cur = s \/ wstream = s \/ sstream = s)
                \/ \E h \in handles : h[2] = s
Destroyed(s) == IF Reachable(s) THEN 0 ELSE items[s]
DestroyedTotal == LET RECURSIVE Sum(_) Sum(s) == IF s < 0 THEN 0 ELSE Destroyed(s) + Sum(s - 1) IN Sum(MaxRestarts)

\* the matcher never keeps more than three streams alive on its own, and only streams that are not newer than cur
MatcherHoldsFew == alive => Cardinality({cur, wstream, sstream}) <= 3 /\ \A s \in {wstream, sstream} : s <= cur
\* a stream older than everything the matcher refers to lives exactly as long as its injector handles
OldStreamsLiveByHandlesOnly ==
  \A s \in StreamIds : (s < cur /\ s # wstream /\ s # sstream) => (Reachable(s) <=> \E h \in handles : h[2] = s)
=============================================================================
