----------------------------- MODULE BoxcarOrd -----------------------------
\* the orderings as documented in src/boxcar.rs; the driver overwrites OrdsFromCode in a generated copy
OrdsDocumented == [fa |-> "rel", lb_push |-> "acq", cas_ok |-> "rel", cas_fail |-> "acq", sa_push |-> "rel", sa_ext |-> "rel",
                   lb_get |-> "acq", la_get |-> "acq", cnt |-> "acq"]
OrdsFromCode == OrdsDocumented
=============================================================================
