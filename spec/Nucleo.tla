------------------------------- MODULE Nucleo -------------------------------
(***************************************************************************)
(* The tick / worker / notify / restart protocol of the high-level matcher *)
(* (src/lib.rs tick, tick_inner, restart; src/worker.rs run and helpers),  *)
(* composed with abstract injector threads.  One action per critical       *)
(* section or protocol step of the code -- the names in brackets are the   *)
(* cfg(nucleo_verif) hook sites at which the real code reports the step:   *)
(*                                                                         *)
(*   writers   Reserve(s)        inflight.fetch_add            [atomic]    *)
(*             Publish(s,i)      active.store(true, Release)   [atomic]    *)
(*             WNotify(s,i)      (notify)()                    [notify]    *)
(*   UI        Reparse(p)        MultiPattern::reparse                     *)
(*             Restart(clear)                                  [restart]   *)
(*             TickBegin         should_notify := false        [tick.begin]*)
(*             TickCancel        canceled := true, status reset            *)
(*             TickLock          lock acquired (blocking or try) [tick.lock / tick.try_lock]*)
(*             TickTryFail       try_lock timed out            [tick.try_lock_failed]*)
(*             TickArm           should_notify := true         [tick.armed]*)
(*             TickLocked        everything done under the lock [tick.locked, tick.snapshot_update, tick.spawn]*)
(*   worker    RunBegin          flags, cleared reset, reset_matches [run.begin]*)
(*             TScanStart/TScanItem   process_new_items_trivial            *)
(*             RescoreOne(k)/RescoreDone  par_iter_mut rescoring [run.rescore_item]*)
(*             RetryStep         in-flight retry                           *)
(*             ScanItem(i)/ScanDone   parallel scan, any order  [run.scan_item]*)
(*             SortStep          par_quicksort + truncate / was_canceled [run.sort_begin, run.sort_end]*)
(*             NRead / Notify    the single read of the flag   [run.notify_check, notify]*)
(*             RunEnd            lock released                 [run.end]   *)
(*                                                                         *)
(* The model describes the code AS IT IS after the fix: commits (in_flight *)
(* kept sorted).  The recorded lost wake-up (known findings KF-C13-..) is a  *)
(* reachable violation of NoLostWakeup; its signature is carried by the    *)
(* ghost `lateArm` so that TLC keeps exploring past it (NoOtherLostWakeup).*)
(***************************************************************************)
EXTENDS Naturals, Sequences, FiniteSets, TLC, SequencesExt

CONSTANTS N,            \* items per stream
          MaxStreams,   \* restarts + 1
          MaxTicks, MaxEdits,
          SortInflight  \* TRUE: in_flight kept sorted (the repaired code); FALSE: as pinned (for demonstration)

MAXI == 99              \* placeholder index (u32::MAX)
None == 100
Items == 0..(N-1)
Streams == 0..(MaxStreams-1)
\* patterns: 0 empty, 1 = "a", 2 = "ab" (typed after 1: append), 3 = "c" (unrelated)
Pats == {0, 1, 2, 3}
AppendOf(p, q) == (p = 0) \/ (p = 1 /\ q = 2)
ScoreT == << <<5, 5, None>>, <<None, 7, None>>, <<4, None, 4>> >>
Score(p, it) == IF p = 0 THEN 0 ELSE ScoreT[p][(it % 3) + 1]
LenT == <<2, 1, 1>>
LenOf(it) == LenT[(it % 3) + 1]
Less(a, b) == \* a, b = <<idx, score>>
  IF a[2] # b[2] THEN a[2] > b[2]
  ELSE IF a[1] = MAXI THEN FALSE ELSE IF b[1] = MAXI THEN TRUE
  ELSE IF LenOf(a[1]) = LenOf(b[1]) THEN a[1] < b[1] ELSE LenOf(a[1]) < LenOf(b[1])
SeqOfSet(S) == SetToSortSeq(S, <)
FromScratch(p, S) ==
  LET M == { it \in S : Score(p, it) # None } IN
  [count |-> Cardinality(S),
   matches |-> IF p = 0 THEN [k \in 1..Cardinality(M) |-> <<SeqOfSet(M)[k], 0>>]
               ELSE SortSeq([k \in 1..Cardinality(M) |-> <<SeqOfSet(M)[k], Score(p, SeqOfSet(M)[k])>>], Less),
   pat |-> p]

VARIABLES resv, wst, pub,         \* per stream: reserved count, writer state per item (0 none,1 reserved,2 published,3 notified), published set
          cur, pat, patStatus, state, snap, lock, canceled, shouldNotify,
          w, ui, wk,
          notifyPending, wake, promise, lateArm, lastRunning, ticks, edits, bad
vars == <<resv, wst, pub, cur, pat, patStatus, state, snap, lock, canceled, shouldNotify, w, ui, wk,
          notifyPending, wake, promise, lateArm, lastRunning, ticks, edits, bad>>

Init ==
  /\ resv = [s \in Streams |-> 0] /\ wst = [s \in Streams |-> [it \in Items |-> 0]] /\ pub = [s \in Streams |-> {}]
  /\ cur = 0 /\ pat = 0 /\ patStatus = "U" /\ state = "Init"
  /\ snap = [count |-> 0, matches |-> <<>>, pat |-> 0, items |-> 0]
  /\ lock = "free" /\ canceled = FALSE /\ shouldNotify = FALSE
  /\ w = [items |-> 0, last |-> 0, inflight |-> <<>>, matches |-> <<>>, pat |-> 0, running |-> FALSE, wasCanceled |-> FALSE]
  /\ ui = [pc |-> "idle", c |-> FALSE, stt |-> "U", phase |-> 1, changed |-> FALSE]
  /\ wk = [pc |-> "idle", status |-> "U", cleared |-> FALSE, end |-> 0, todo |-> {}, res |-> <<>>, unmatched |-> 0, rtodo |-> {}]
  /\ notifyPending = FALSE /\ wake = TRUE /\ promise = FALSE /\ lateArm = FALSE /\ lastRunning = FALSE
  /\ ticks = 0 /\ edits = 0 /\ bad = "ok"

\* ---------------- injector threads (any stream: old injectors keep working after a restart)
WrUnch == UNCHANGED <<cur, pat, patStatus, state, snap, lock, canceled, shouldNotify, w, ui, wk, wake, promise, lateArm, lastRunning, ticks, edits, bad>>
Reserve(s) == /\ s <= cur /\ resv[s] < N /\ wst[s][resv[s]] = 0
              /\ wst' = [wst EXCEPT ![s][resv[s]] = 1] /\ resv' = [resv EXCEPT ![s] = @ + 1]
              /\ UNCHANGED <<pub, notifyPending>> /\ WrUnch
Publish(s, it) == /\ wst[s][it] = 1 /\ wst' = [wst EXCEPT ![s][it] = 2] /\ pub' = [pub EXCEPT ![s] = @ \cup {it}]
                  /\ UNCHANGED <<resv, notifyPending>> /\ WrUnch
WNotify(s, it) == /\ wst[s][it] = 2 /\ wst' = [wst EXCEPT ![s][it] = 3] /\ notifyPending' = TRUE
                  /\ UNCHANGED <<resv, pub>> /\ WrUnch

\* ---------------- UI thread
UiUnch == UNCHANGED <<resv, wst, pub>>
Reparse(p) ==
  /\ ui.pc = "idle" /\ edits < MaxEdits /\ p # pat
  /\ pat' = p /\ edits' = edits + 1 /\ wake' = TRUE
  /\ patStatus' = IF AppendOf(pat, p) /\ patStatus # "R" THEN "P" ELSE "R"
  /\ UiUnch /\ UNCHANGED <<cur, state, snap, lock, canceled, shouldNotify, w, ui, wk, notifyPending, promise, lateArm, lastRunning, ticks, bad>>

Restart(clear) ==
  /\ ui.pc = "idle" /\ cur < MaxStreams - 1
  /\ canceled' = TRUE /\ cur' = cur + 1 /\ state' = "Cleared" /\ wake' = TRUE
  /\ snap' = IF clear THEN [snap EXCEPT !.count = 0, !.matches = <<>>, !.items = cur + 1] ELSE snap
  /\ UiUnch /\ UNCHANGED <<pat, patStatus, lock, shouldNotify, w, ui, wk, notifyPending, promise, lateArm, lastRunning, ticks, edits, bad>>

\* an event loop that ticks when notified, or right after its own edit / restart
TickBegin ==
  /\ ui.pc = "idle" /\ ticks < MaxTicks /\ (notifyPending \/ wake)
  /\ ticks' = ticks + 1 /\ notifyPending' = FALSE /\ wake' = FALSE /\ promise' = FALSE /\ lateArm' = FALSE
  /\ shouldNotify' = FALSE
  /\ LET c == patStatus # "U" \/ state # "Fresh" IN
     ui' = [pc |-> IF c THEN "cancel" ELSE "try", c |-> c, stt |-> patStatus, phase |-> 1, changed |-> FALSE]
  /\ UiUnch /\ UNCHANGED <<cur, pat, patStatus, state, snap, lock, canceled, w, wk, lastRunning, edits, bad>>
TickCancel ==
  /\ ui.pc = "cancel" /\ patStatus' = "U" /\ canceled' = TRUE /\ ui' = [ui EXCEPT !.pc = "lockwait"]
  /\ UiUnch /\ UNCHANGED <<cur, pat, state, snap, lock, shouldNotify, w, wk, notifyPending, wake, promise, lateArm, lastRunning, ticks, edits, bad>>
TickLock ==
  /\ ui.pc \in {"lockwait", "try"} /\ lock = "free" /\ lock' = "ui" /\ ui' = [ui EXCEPT !.pc = "locked"]
  /\ UiUnch /\ UNCHANGED <<cur, pat, patStatus, state, snap, canceled, shouldNotify, w, wk, notifyPending, wake, promise, lateArm, lastRunning, ticks, edits, bad>>
TickTryFail ==   \* any timeout: enabled whenever the lock is held
  /\ ui.pc = "try" /\ lock # "free" /\ ui' = [ui EXCEPT !.pc = "arm"]
  /\ UiUnch /\ UNCHANGED <<cur, pat, patStatus, state, snap, lock, canceled, shouldNotify, w, wk, notifyPending, wake, promise, lateArm, lastRunning, ticks, edits, bad>>
TickArm ==
  /\ ui.pc = "arm" /\ shouldNotify' = TRUE /\ ui' = [ui EXCEPT !.pc = "idle"]
  /\ promise' = TRUE /\ lastRunning' = TRUE
  \* signature of the known lost wake-up: the run holding the lock has already done its single read of the flag
  \* (or has even notified and is about to unlock) when the flag is re-armed
  /\ lateArm' = (wk.pc \in {"notify", "end", "idle"})
  /\ UiUnch /\ UNCHANGED <<cur, pat, patStatus, state, snap, lock, canceled, w, wk, notifyPending, wake, ticks, edits, bad>>
TickLocked ==
  /\ ui.pc = "locked"
  /\ LET cflag == ui.phase = 1 /\ ui.c
         running == cflag \/ resv[cur] > w.last - Len(w.inflight)
         doSnap == w.running /\ ~w.wasCanceled /\ state = "Fresh"
         w1 == [w EXCEPT !.running = FALSE]
         cleared == state # "Fresh"
     IN
     /\ snap' = IF doSnap THEN [count |-> w.last - Len(w.inflight), matches |-> w.matches, pat |-> w.pat, items |-> w.items] ELSE snap
     /\ IF running
        THEN /\ w' = [w1 EXCEPT !.pat = pat, !.items = IF cleared THEN cur ELSE @]
             /\ canceled' = FALSE
             /\ shouldNotify' = IF ~cflag THEN TRUE ELSE shouldNotify
             /\ lock' = "w"
             /\ wk' = [pc |-> "begin", status |-> IF ui.phase = 1 THEN ui.stt ELSE "U", cleared |-> cleared,
                       end |-> 0, todo |-> {}, res |-> <<>>, unmatched |-> 0, rtodo |-> {}]
        ELSE /\ w' = w1 /\ lock' = "free" /\ UNCHANGED <<canceled, shouldNotify, wk>>
     /\ IF cflag
        THEN /\ ui' = [ui EXCEPT !.pc = "try", !.phase = 2, !.changed = w.running] /\ state' = "Fresh"
             /\ UNCHANGED <<promise, lastRunning>>
        ELSE /\ ui' = [ui EXCEPT !.pc = "idle", !.changed = @ \/ w.running] /\ promise' = running /\ lastRunning' = running /\ UNCHANGED state
  /\ UiUnch /\ UNCHANGED <<cur, pat, patStatus, notifyPending, wake, lateArm, ticks, edits, bad>>

\* ---------------- worker (runs over the stream w.items)
WUnch == UNCHANGED <<resv, wst, pub, cur, pat, patStatus, state, snap, canceled, shouldNotify, ui, wake, promise, lateArm, lastRunning, ticks, edits>>
WPub == pub[w.items]
WRes == resv[w.items]
RemAt(q, k) == [j \in 1..(Len(q)-1) |-> IF j < k THEN q[j] ELSE q[j+1]]
RECURSIVE RemInflight(_, _, _, _)
\* remove_in_flight_matches: positional removal `i - off`; returns <<matches, newInflight, ok>>
RemInflight(m, infl, off, keep) ==
  IF infl = <<>> THEN <<m, keep, TRUE>>
  ELSE LET it == Head(infl) IN
    IF it \in WPub THEN RemInflight(m, Tail(infl), off, keep)
    ELSE IF it - off + 1 > Len(m) \/ it < off THEN <<m, keep, FALSE>>
    ELSE RemInflight(RemAt(m, it - off + 1), Tail(infl), off + 1, Append(keep, it))
ResetM(ww) ==
  LET base == [k \in 1..ww.last |-> <<k-1, 0>>]
      rr == RemInflight(base, ww.inflight, 0, <<>>) IN
  <<[ww EXCEPT !.matches = rr[1], !.inflight = rr[2]], rr[3]>>

RunBegin ==
  /\ wk.pc = "begin"
  /\ LET w0 == [w EXCEPT !.running = TRUE, !.wasCanceled = FALSE]
         w1 == IF wk.cleared THEN [w0 EXCEPT !.last = 0, !.inflight = <<>>, !.matches = <<>>] ELSE w0
         needReset == w1.pat = 0 \/ wk.status = "R"
         rs == IF needReset THEN ResetM(w1) ELSE <<w1, TRUE>>
         w2 == rs[1]
     IN /\ w' = w2
        /\ bad' = IF rs[2] THEN bad ELSE "remove-panic"
        /\ wk' = [wk EXCEPT !.pc = IF w2.pat = 0 THEN "tscan0"
                                   ELSE IF wk.status # "U" /\ w2.matches # <<>> THEN "tscan" ELSE "retry"]
  /\ WUnch /\ UNCHANGED <<lock, notifyPending>>
TScanStart ==
  /\ wk.pc \in {"tscan0", "tscan"} /\ wk.todo = {} /\ wk.end = 0
  /\ IF WRes = w.last
     THEN wk' = [wk EXCEPT !.pc = IF wk.pc = "tscan0" THEN "nread" ELSE "rescore", !.rtodo = 1..Len(w.matches)]
     ELSE wk' = [wk EXCEPT !.end = WRes, !.todo = w.last..(WRes-1)]
  /\ UNCHANGED <<w, bad>> /\ WUnch /\ UNCHANGED <<lock, notifyPending>>
MinOf(S) == CHOOSE x \in S : \A y \in S : x <= y
TScanItem ==
  /\ wk.pc \in {"tscan0", "tscan"} /\ wk.todo # {}
  /\ LET it == MinOf(wk.todo)
         w1 == IF it \in WPub THEN [w EXCEPT !.matches = Append(@, <<it, 0>>)] ELSE [w EXCEPT !.inflight = Append(@, it)]
         done == wk.todo = {it}
         w2 == IF done THEN [w1 EXCEPT !.last = wk.end] ELSE w1 IN
     /\ w' = w2
     /\ wk' = [wk EXCEPT !.todo = @ \ {it},
                         !.end = IF done THEN 0 ELSE @,
                         !.pc = IF done THEN (IF wk.pc = "tscan0" THEN "nread" ELSE "rescore") ELSE @,
                         !.rtodo = IF done THEN 1..Len(w2.matches) ELSE @]
  /\ UNCHANGED bad /\ WUnch /\ UNCHANGED <<lock, notifyPending>>
RescoreOne(k) ==
  /\ wk.pc = "rescore" /\ k \in wk.rtodo /\ ~canceled
  /\ LET m == w.matches[k] IN
     IF m[1] = MAXI THEN /\ wk' = [wk EXCEPT !.rtodo = @ \ {k}, !.unmatched = @ + 1] /\ UNCHANGED <<w, bad>>
     ELSE /\ bad' = IF m[1] \in WPub THEN bad ELSE "deref-unpublished"
          /\ IF Score(w.pat, m[1]) # None
             THEN /\ w' = [w EXCEPT !.matches[k] = <<m[1], Score(w.pat, m[1])>>] /\ wk' = [wk EXCEPT !.rtodo = @ \ {k}]
             ELSE /\ w' = [w EXCEPT !.matches[k] = <<MAXI, 0>>] /\ wk' = [wk EXCEPT !.rtodo = @ \ {k}, !.unmatched = @ + 1]
  /\ WUnch /\ UNCHANGED <<lock, notifyPending>>
RescoreDone ==
  /\ wk.pc = "rescore" /\ (wk.rtodo = {} \/ canceled)
  /\ wk' = [wk EXCEPT !.pc = "sort", !.rtodo = {}]
  /\ UNCHANGED <<w, bad>> /\ WUnch /\ UNCHANGED <<lock, notifyPending>>
RECURSIVE Retry(_, _, _)
Retry(infl, m, keep) ==
  IF infl = <<>> THEN <<m, keep>>
  ELSE LET it == Head(infl) IN
    IF it \in WPub THEN Retry(Tail(infl), IF Score(w.pat, it) # None THEN Append(m, <<it, Score(w.pat, it)>>) ELSE m, keep)
    ELSE Retry(Tail(infl), m, Append(keep, it))
RetryStep ==
  /\ wk.pc = "retry"
  /\ LET rr == Retry(w.inflight, w.matches, <<>>) IN
     /\ w' = [w EXCEPT !.matches = rr[1], !.inflight = rr[2]]
     /\ IF WRes = w.last THEN wk' = [wk EXCEPT !.pc = "sort"]
        ELSE wk' = [wk EXCEPT !.pc = "scan", !.end = WRes, !.todo = w.last..(WRes-1), !.res = [k \in 1..(WRes - w.last) |-> <<MAXI, 0>>]]
  /\ UNCHANGED bad /\ WUnch /\ UNCHANGED <<lock, notifyPending>>
ScanItem(it) ==   \* any unscanned item, on any pool thread
  /\ wk.pc = "scan" /\ it \in wk.todo
  /\ LET k == it - w.last + 1 IN
     IF it \notin WPub
     THEN /\ w' = [w EXCEPT !.inflight = Append(@, it)]
          /\ wk' = [wk EXCEPT !.todo = @ \ {it}, !.unmatched = @ + 1]
     ELSE IF canceled
     THEN /\ wk' = [wk EXCEPT !.todo = @ \ {it}, !.res[k] = <<it, 0>>] /\ UNCHANGED w
     ELSE IF Score(w.pat, it) # None
     THEN /\ wk' = [wk EXCEPT !.todo = @ \ {it}, !.res[k] = <<it, Score(w.pat, it)>>] /\ UNCHANGED w
     ELSE /\ wk' = [wk EXCEPT !.todo = @ \ {it}, !.unmatched = @ + 1] /\ UNCHANGED w
  /\ UNCHANGED bad /\ WUnch /\ UNCHANGED <<lock, notifyPending>>
ScanDone ==
  /\ wk.pc = "scan" /\ wk.todo = {}
  /\ w' = [w EXCEPT !.matches = @ \o wk.res, !.last = wk.end,
                    !.inflight = IF SortInflight THEN SortSeq(@, <) ELSE @]
  /\ wk' = [wk EXCEPT !.pc = "sort", !.res = <<>>, !.end = 0]
  /\ UNCHANGED bad /\ WUnch /\ UNCHANGED <<lock, notifyPending>>
SortStep ==
  /\ wk.pc = "sort"
  /\ IF canceled
     THEN /\ w' = [w EXCEPT !.wasCanceled = TRUE] /\ wk' = [wk EXCEPT !.pc = "end"] /\ UNCHANGED bad
     ELSE LET srt == SortSeq(w.matches, Less)
              real == { srt[k][1] : k \in 1..Len(srt) } \ {MAXI} IN
          /\ bad' = IF Len(srt) >= 2 /\ ~(real \subseteq WPub) THEN "deref-unpublished" ELSE bad
          /\ w' = [w EXCEPT !.matches = SubSeq(srt, 1, Len(srt) - wk.unmatched)]
          /\ wk' = [wk EXCEPT !.pc = "nread", !.unmatched = 0]
  /\ WUnch /\ UNCHANGED <<lock, notifyPending>>
NRead ==
  /\ wk.pc = "nread"
  /\ wk' = [wk EXCEPT !.pc = IF shouldNotify THEN "notify" ELSE "end"]
  /\ UNCHANGED <<w, bad>> /\ WUnch /\ UNCHANGED <<lock, notifyPending>>
Notify ==
  /\ wk.pc = "notify" /\ notifyPending' = TRUE /\ wk' = [wk EXCEPT !.pc = "end"]
  /\ UNCHANGED <<w, bad, lock>> /\ WUnch
RunEnd ==
  /\ wk.pc = "end" /\ lock' = "free" /\ wk' = [wk EXCEPT !.pc = "idle", !.unmatched = 0]
  /\ UNCHANGED <<w, bad, notifyPending>> /\ WUnch

Next == (\E s \in Streams : Reserve(s) \/ \E it \in Items : Publish(s, it) \/ WNotify(s, it))
        \/ (\E p \in Pats : Reparse(p)) \/ (\E c \in BOOLEAN : Restart(c))
        \/ TickBegin \/ TickCancel \/ TickLock \/ TickTryFail \/ TickArm \/ TickLocked
        \/ RunBegin \/ TScanStart \/ TScanItem \/ (\E k \in 1..N : RescoreOne(k)) \/ RescoreDone
        \/ RetryStep \/ (\E it \in Items : ScanItem(it)) \/ ScanDone \/ SortStep \/ NRead \/ Notify \/ RunEnd
Spec == Init /\ [][Next]_vars

\* ---------------- properties
\* C06
NoBadDeref == bad = "ok"
SnapshotSafe == \A k \in 1..Len(snap.matches) : snap.matches[k][1] \in pub[snap.items]
SnapshotNoDup == \A k, l \in 1..Len(snap.matches) : k # l => snap.matches[k][1] # snap.matches[l][1]
SnapshotScores == \A k \in 1..Len(snap.matches) : snap.matches[k][2] = Score(snap.pat, snap.matches[k][1])
SnapshotOrder == \A k \in 1..Len(snap.matches) - 1 :
                    IF snap.pat = 0 THEN snap.matches[k][1] < snap.matches[k+1][1] ELSE Less(snap.matches[k], snap.matches[k+1])
SnapshotCount == Len(snap.matches) <= snap.count /\ snap.count <= resv[snap.items]
\* C12
RestartIsolation == snap.items <= cur /\ w.items <= cur
\* C07 / C13 / C19
WritersQuiet == \A s \in Streams : \A it \in Items : wst[s][it] \in {0, 3}
Quiescent == ui.pc = "idle" /\ wk.pc = "idle" /\ WritersQuiet /\ ~notifyPending /\ ~wake
NoLostWakeup == ~(Quiescent /\ promise)
NoOtherLostWakeup == ~(Quiescent /\ promise /\ ~lateArm)       \* anything but the recorded signature
Converged == (Quiescent /\ ~lastRunning /\ ticks > 0) => (snap.items = cur /\ [count |-> snap.count, matches |-> snap.matches, pat |-> snap.pat] = FromScratch(pat, pub[cur]))
RunningFalseMeansCaughtUp == (ui.pc = "idle" /\ ~lastRunning /\ ticks > 0 /\ wk.pc = "idle" /\ ~wake) => snap.pat = pat
=============================================================================
