------------------------------- MODULE Nucleo -------------------------------
(***************************************************************************)
(* The tick / worker / notify / restart protocol of the high-level matcher *)
(* (src/lib.rs tick, tick_inner, restart, drop; src/worker.rs run and its  *)
(* helpers), composed with injector threads.  One action per critical      *)
(* section or protocol step of the code; the names in brackets are the     *)
(* cfg(nucleo_verif) hook sites / atomic operations at which the real code *)
(* takes the step (NucleoConform.tla binds recorded executions to these    *)
(* actions, NucleoMC.tla explores them exhaustively for small constants):  *)
(*                                                                         *)
(*   writers   Reserve(s, rows)  inflight.fetch_add            [atomic]    *)
(*             Publish(s,i)      active.store(true, Release)   [atomic]    *)
(*             WNotifySet(s,S)   (notify)() of push / extend   [notify]    *)
(*   UI        ReparseWith(p,a)  MultiPattern::reparse         [call reparse]*)
(*             Restart(clear)    canceled := true, new stream  [canceled.store in restart]*)
(*             Drop              canceled := true              [canceled.store in drop]*)
(*             TickBegin         should_notify := false        [should_notify.store]*)
(*             TickCancel        canceled := true, status reset[canceled.store in tick]*)
(*             TickLock          lock acquired                 [first event under the lock]*)
(*             TickTryFail       try_lock timed out            [tick.try_lock_failed]*)
(*             TickArm           should_notify := true         [should_notify.store(true)]*)
(*             TickRetryOk/Fail  the lock tried once more      [tick.retry_lock]*)
(*             TickLockedWith(c) decisions, snapshot, hand-over of pattern / items [tick.locked]*)
(*             TickStoreNotify   should_notify := true         [should_notify.store(true)]*)
(*             TickSpawn         the guard moves to the pool   [tick.spawn]*)
(*   worker    RunBegin          flags, cleared reset          [run.begin] *)
(*             ResetItem/ResetDone   reset_matches + remove_in_flight_matches, one active.load per item*)
(*             TScanStart/TScanItem  process_new_items_trivial [inflight.load / active.load]*)
(*             RescoreCheck/RescoreOne/RescorePh/RescoreDone  take_any_while + for_each [canceled.load, run.rescore_item]*)
(*             RetryItem/RetryDone   in-flight retry           [active.load / inflight.load]*)
(*             ScanItem(i)/ScanDone  parallel scan, any order  [active.load, canceled.load / par.scan end]*)
(*             SortStepWith(c)   par_quicksort + truncate / was_canceled [run.sort_end]*)
(*             RunEnd            lock released                 [run.unlocked]*)
(*             NRead / Notify    the single read of the flag, after the unlock [should_notify.load, notify]*)
(*                                                                         *)
(* The model describes the code AS IT IS after the fix: commits (in_flight *)
(* kept sorted; the run releases the lock before its single read of the    *)
(* notification flag, and a tick that timed out tries the lock once more   *)
(* after arming the flag).  Before the last of these repairs NoLostWakeup  *)
(* was a reachable violation (TickTryFail, the run's read of the flag,     *)
(* RunEnd, TickArm); it now holds in every explored instance.              *)
(*                                                                         *)
(* Item payloads are state: data[s][i] = [len, sc] is what the injector    *)
(* wrote into entry i of stream s (total column length and the score of    *)
(* the item under every pattern of Pats, None = no match).                 *)
(***************************************************************************)
EXTENDS Naturals, Sequences, FiniteSets, TLC, SequencesExt

CONSTANTS N,            \* entries per stream
          MaxStreams,   \* restarts + 1
          SortInflight, \* TRUE: in_flight kept sorted (the repaired code); FALSE: as pinned (for demonstration)
          Pats,         \* pattern ids; 0 is the empty pattern
          Appendable    \* patterns to which text may be appended without changing the meaning of their last atom

MAXI == 99999           \* placeholder index (u32::MAX)
None == 100000
Items == 0..(N-1)
Streams == 0..(MaxStreams-1)

VARIABLES resv, wst, pub, data,   \* per stream: reserved count, writer state per entry (0 none,1 reserved,2 published,3 notified), published set, payloads
          cur, pat, patStatus, state, snap, lock, canceled, shouldNotify,
          w, ui, wk,
          notifyPending, wake, promise, lastRunning, ticks, edits, bad,
          tails      \* closures on the pool that have released the lock: [read |-> still to read the flag, notify |-> saw it set]
vars == <<resv, wst, pub, data, cur, pat, patStatus, state, snap, lock, canceled, shouldNotify, w, ui, wk,
          notifyPending, wake, promise, lastRunning, ticks, edits, bad, tails>>

Score(s, p, it) == data[s][it].sc[p]
LenOf(s, it) == data[s][it].len
Less(s, a, b) == \* a, b = <<idx, score>> of stream s: the worker's comparison
  IF a[2] # b[2] THEN a[2] > b[2]
  ELSE IF a[1] = MAXI THEN FALSE ELSE IF b[1] = MAXI THEN TRUE
  ELSE IF LenOf(s, a[1]) = LenOf(s, b[1]) THEN a[1] < b[1] ELSE LenOf(s, a[1]) < LenOf(s, b[1])
SeqOfSet(S) == SetToSortSeq(S, <)
FromScratch(s, p, S) ==
  LET M == { it \in S : Score(s, p, it) # None } IN
  [count |-> Cardinality(S),
   matches |-> IF p = 0 THEN [k \in 1..Cardinality(M) |-> <<SeqOfSet(M)[k], 0>>]
               ELSE SortSeq([k \in 1..Cardinality(M) |-> <<SeqOfSet(M)[k], Score(s, p, SeqOfSet(M)[k])>>], LAMBDA a, b : Less(s, a, b)),
   pat |-> p]

\* initial values (also used by the trace specification to start a new recorded run)
resv0 == [s \in Streams |-> 0]
wst0 == [s \in Streams |-> [it \in Items |-> 0]]
pub0 == [s \in Streams |-> {}]
snap0 == [count |-> 0, matches |-> <<>>, pat |-> 0, items |-> 0]
w0 == [items |-> 0, last |-> 0, inflight |-> <<>>, matches |-> <<>>, pat |-> 0, running |-> FALSE, wasCanceled |-> FALSE]
ui0 == [pc |-> "idle", c |-> FALSE, stt |-> "U", phase |-> 1, changed |-> FALSE, arm |-> FALSE, cleared |-> FALSE]
tails0 == [read |-> 0, notify |-> 0]
wk0 == [pc |-> "idle", fin |-> FALSE, status |-> "U", cleared |-> FALSE, end |-> 0, todo |-> {}, res |-> <<>>, unmatched |-> 0, rtodo |-> {},
        ci |-> 1, off |-> 0, keep |-> <<>>, rok |-> 0]

InitCore ==   \* everything but the payloads
  /\ resv = resv0 /\ wst = wst0 /\ pub = pub0
  /\ cur = 0 /\ pat = 0 /\ patStatus = "U" /\ state = "Init"
  /\ snap = snap0
  /\ lock = "free" /\ canceled = FALSE /\ shouldNotify = FALSE
  /\ w = w0 /\ ui = ui0 /\ wk = wk0
  /\ notifyPending = FALSE /\ wake = TRUE /\ promise = FALSE /\ lastRunning = FALSE
  /\ ticks = 0 /\ edits = 0 /\ bad = "ok" /\ tails = tails0

\* ---------------- injector threads (any stream: old injectors keep working after a restart)
WrUnch == UNCHANGED <<cur, pat, patStatus, state, snap, lock, canceled, shouldNotify, w, ui, wk, wake, promise, lastRunning, ticks, edits, bad, tails>>
\* one fetch_add reserving Len(rows) consecutive entries; the payloads are written before publication
Reserve(s, rows) ==
  LET n == Len(rows)  b == resv[s] IN
  /\ s <= cur /\ n >= 1 /\ b + n <= N /\ \A it \in b..(b + n - 1) : wst[s][it] = 0
  /\ wst' = [wst EXCEPT ![s] = [it \in Items |-> IF it >= b /\ it < b + n THEN 1 ELSE @[it]]]
  /\ data' = [data EXCEPT ![s] = [it \in Items |-> IF it >= b /\ it < b + n THEN rows[it - b + 1] ELSE @[it]]]
  /\ resv' = [resv EXCEPT ![s] = b + n]
  /\ UNCHANGED <<pub, notifyPending>> /\ WrUnch
Publish(s, it) == /\ wst[s][it] = 1 /\ wst' = [wst EXCEPT ![s][it] = 2] /\ pub' = [pub EXCEPT ![s] = @ \cup {it}]
                  /\ UNCHANGED <<resv, data, notifyPending>> /\ WrUnch
\* push notifies for its item, extend once for its whole batch
WNotifySet(s, S) == /\ S # {} /\ \A it \in S : wst[s][it] = 2
                    /\ wst' = [wst EXCEPT ![s] = [it \in Items |-> IF it \in S THEN 3 ELSE @[it]]]
                    /\ notifyPending' = TRUE
                    /\ UNCHANGED <<resv, pub, data>> /\ WrUnch

\* ---------------- UI thread
UiUnch == UNCHANGED <<resv, wst, pub, data, tails>>
ReparseWith(p, app) ==
  /\ ui.pc = "idle"
  /\ pat' = p /\ edits' = edits + 1 /\ wake' = TRUE
  /\ patStatus' = IF app /\ patStatus # "R" /\ pat \in Appendable THEN "P" ELSE "R"
  /\ UiUnch /\ UNCHANGED <<cur, state, snap, lock, canceled, shouldNotify, w, ui, wk, notifyPending, promise, lastRunning, ticks, bad>>

Restart(clear) ==
  /\ ui.pc = "idle" /\ cur < MaxStreams - 1
  /\ canceled' = TRUE /\ cur' = cur + 1 /\ state' = "Cleared" /\ wake' = TRUE
  /\ snap' = IF clear THEN [snap EXCEPT !.count = 0, !.matches = <<>>, !.items = cur + 1] ELSE snap
  /\ UiUnch /\ UNCHANGED <<pat, patStatus, lock, shouldNotify, w, ui, wk, notifyPending, promise, lastRunning, ticks, edits, bad>>

\* Nucleo::drop: cancel, then wait for the lock (the worker finishes its run on its own)
Drop ==
  /\ ui.pc = "idle" /\ canceled' = TRUE /\ ui' = [ui EXCEPT !.pc = "dropped"]
  /\ UiUnch /\ UNCHANGED <<cur, pat, patStatus, state, snap, lock, shouldNotify, w, wk, notifyPending, wake, promise, lastRunning, ticks, edits, bad>>

TickBegin ==
  /\ ui.pc = "idle"
  /\ ticks' = ticks + 1 /\ notifyPending' = FALSE /\ wake' = FALSE /\ promise' = FALSE
  /\ shouldNotify' = FALSE
  /\ LET c == patStatus # "U" \/ state # "Fresh" IN
     ui' = [ui0 EXCEPT !.pc = IF c THEN "cancel" ELSE "try", !.c = c, !.stt = patStatus]
  /\ UiUnch /\ UNCHANGED <<cur, pat, patStatus, state, snap, lock, canceled, w, wk, lastRunning, edits, bad>>
TickCancel ==
  /\ ui.pc = "cancel" /\ patStatus' = "U" /\ canceled' = TRUE /\ ui' = [ui EXCEPT !.pc = "lockwait"]
  /\ UiUnch /\ UNCHANGED <<cur, pat, state, snap, lock, shouldNotify, w, wk, notifyPending, wake, promise, lastRunning, ticks, edits, bad>>
TickLock ==
  /\ ui.pc \in {"lockwait", "try"} /\ lock = "free" /\ lock' = "ui" /\ ui' = [ui EXCEPT !.pc = "locked"]
  /\ UiUnch /\ UNCHANGED <<cur, pat, patStatus, state, snap, canceled, shouldNotify, w, wk, notifyPending, wake, promise, lastRunning, ticks, edits, bad>>
\* any timeout: enabled whenever the lock is held.  `held`: the lock was held when the attempt was made (trace
\* validation: the failure is reported by a hook that may be recorded after the holder's unlock)
TickTryFailAt(held) ==
  /\ ui.pc = "try" /\ held /\ ui' = [ui EXCEPT !.pc = "arm"]
  /\ UiUnch /\ UNCHANGED <<cur, pat, patStatus, state, snap, lock, canceled, shouldNotify, w, wk, notifyPending, wake, promise, lastRunning, ticks, edits, bad>>
TickTryFail == TickTryFailAt(lock # "free")
TickArm ==
  /\ ui.pc = "arm" /\ shouldNotify' = TRUE /\ ui' = [ui EXCEPT !.pc = "retry"]
  /\ UiUnch /\ UNCHANGED <<cur, pat, patStatus, state, snap, lock, canceled, w, wk, notifyPending, wake, promise, lastRunning, ticks, edits, bad>>
\* after arming the flag the lock is tried once more: the run reads the flag only after it has unlocked, so
\* either it sees the flag or this attempt finds the lock free
TickRetryOk ==
  /\ ui.pc = "retry" /\ lock = "free" /\ lock' = "ui" /\ ui' = [ui EXCEPT !.pc = "locked"]
  /\ UiUnch /\ UNCHANGED <<cur, pat, patStatus, state, snap, canceled, shouldNotify, w, wk, notifyPending, wake, promise, lastRunning, ticks, edits, bad>>
TickRetryFailAt(held) ==
  /\ ui.pc = "retry" /\ held /\ ui' = [ui EXCEPT !.pc = "idle"] /\ promise' = TRUE /\ lastRunning' = TRUE
  /\ UiUnch /\ UNCHANGED <<cur, pat, patStatus, state, snap, lock, canceled, shouldNotify, w, wk, notifyPending, wake, ticks, edits, bad>>

TickRetryFail == TickRetryFailAt(lock # "free")

\* the decisions taken under the lock; cnt = the value items.count() returned (read only when not cancelling)
TLCancelling == ui.phase = 1 /\ ui.c
TLRunning(cnt) == TLCancelling \/ cnt > w.last - Len(w.inflight)
TLDoSnap == w.running /\ ~w.wasCanceled /\ state = "Fresh"
TLCleared == state # "Fresh"
TickLockedWith(cnt) ==
  /\ ui.pc = "locked"
  /\ LET cflag == TLCancelling
         running == TLRunning(cnt)
         w1 == [w EXCEPT !.running = FALSE]
     IN
     /\ snap' = IF TLDoSnap THEN [count |-> w.last - Len(w.inflight), matches |-> w.matches, pat |-> w.pat, items |-> w.items] ELSE snap
     /\ IF running
        THEN \* the worker is handed the pattern (and the new item list), then the flags are stored, then it is spawned
             /\ w' = [w1 EXCEPT !.pat = pat, !.items = IF TLCleared THEN cur ELSE @]
             /\ canceled' = FALSE
             /\ ui' = [ui EXCEPT !.pc = "spawn", !.changed = IF cflag THEN w.running ELSE @ \/ w.running, !.arm = ~cflag, !.cleared = TLCleared]
             /\ UNCHANGED <<lock, promise, lastRunning>>
        ELSE /\ w' = w1 /\ lock' = "free" /\ UNCHANGED canceled
             /\ ui' = [ui EXCEPT !.pc = "idle", !.changed = @ \/ w.running] /\ promise' = FALSE /\ lastRunning' = FALSE
  /\ UiUnch /\ UNCHANGED <<cur, pat, patStatus, state, shouldNotify, wk, notifyPending, wake, ticks, edits, bad>>
\* should_notify.store(true): the tail of an earlier closure may read the flag before or after this store
TickStoreNotify ==
  /\ ui.pc = "spawn" /\ ui.arm /\ shouldNotify' = TRUE /\ ui' = [ui EXCEPT !.arm = FALSE]
  /\ UiUnch /\ UNCHANGED <<cur, pat, patStatus, state, snap, lock, canceled, w, wk, notifyPending, wake, promise, lastRunning, ticks, edits, bad>>
\* pool.spawn: the lock guard moves into the closure
TickSpawn ==
  /\ ui.pc = "spawn" /\ ~ui.arm
  /\ lock' = "w"
  /\ wk' = [wk0 EXCEPT !.pc = "begin", !.status = IF ui.phase = 1 THEN ui.stt ELSE "U", !.cleared = ui.cleared]
  /\ IF TLCancelling
     THEN /\ ui' = [ui EXCEPT !.pc = "try", !.phase = 2] /\ state' = "Fresh" /\ UNCHANGED <<promise, lastRunning>>
     ELSE /\ ui' = [ui EXCEPT !.pc = "idle"] /\ promise' = TRUE /\ lastRunning' = TRUE /\ UNCHANGED state
  /\ UiUnch /\ UNCHANGED <<cur, pat, patStatus, snap, canceled, shouldNotify, w, notifyPending, wake, ticks, edits, bad>>

\* ---------------- worker (runs over the stream w.items)
WCore == UNCHANGED <<resv, wst, pub, data, cur, pat, patStatus, state, snap, canceled, shouldNotify, ui, wake, promise, lastRunning, ticks, edits>>
WUnch == WCore /\ UNCHANGED tails
WPub == pub[w.items]
WRes == resv[w.items]
WScore(it) == Score(w.items, w.pat, it)
RemAt(q, k) == [j \in 1..(Len(q)-1) |-> IF j < k THEN q[j] ELSE q[j+1]]

\* where the run goes once the match list is (re)built
AfterReset(ww) == IF ww.pat = 0 THEN "tscan0" ELSE IF wk.status # "U" /\ ww.matches # <<>> THEN "tscan" ELSE "retry"

RunBegin ==
  /\ wk.pc = "begin"
  /\ LET wa == [w EXCEPT !.running = TRUE, !.wasCanceled = FALSE]
         wb == IF wk.cleared THEN [wa EXCEPT !.last = 0, !.inflight = <<>>, !.matches = <<>>] ELSE wa
         needReset == wb.pat = 0 \/ wk.status = "R"
     IN IF needReset
        THEN /\ w' = [wb EXCEPT !.matches = [k \in 1..wb.last |-> <<k-1, 0>>]]
             /\ wk' = [wk EXCEPT !.pc = "reset", !.ci = 1, !.off = 0, !.keep = <<>>]
        ELSE /\ w' = wb /\ wk' = [wk EXCEPT !.pc = AfterReset(wb), !.ci = 1, !.keep = <<>>]
  /\ UNCHANGED bad /\ WUnch /\ UNCHANGED <<lock, notifyPending>>

\* remove_in_flight_matches: one items.get(i) per in-flight index, positional removal `i - off`
ResetItem ==
  /\ wk.pc = "reset" /\ wk.ci <= Len(w.inflight)
  /\ LET it == w.inflight[wk.ci] IN
     IF it \in WPub
     THEN /\ wk' = [wk EXCEPT !.ci = @ + 1] /\ UNCHANGED <<w, bad>>
     ELSE IF it - wk.off + 1 > Len(w.matches) \/ it < wk.off
     THEN /\ bad' = "remove-panic" /\ wk' = [wk EXCEPT !.ci = @ + 1, !.keep = Append(@, it)] /\ UNCHANGED w
     ELSE /\ w' = [w EXCEPT !.matches = RemAt(@, it - wk.off + 1)]
          /\ wk' = [wk EXCEPT !.ci = @ + 1, !.off = @ + 1, !.keep = Append(@, it)] /\ UNCHANGED bad
  /\ WUnch /\ UNCHANGED <<lock, notifyPending>>
ResetDone ==
  /\ wk.pc = "reset" /\ wk.ci > Len(w.inflight)
  /\ w' = [w EXCEPT !.inflight = wk.keep]
  /\ wk' = [wk EXCEPT !.pc = AfterReset(w), !.ci = 1, !.off = 0, !.keep = <<>>]
  /\ UNCHANGED bad /\ WUnch /\ UNCHANGED <<lock, notifyPending>>

TScanStart ==
  /\ wk.pc \in {"tscan0", "tscan"} /\ wk.todo = {} /\ wk.end = 0
  /\ IF WRes = w.last
     THEN wk' = [wk EXCEPT !.pc = IF wk.pc = "tscan0" THEN "end" ELSE "rescore", !.fin = (wk.pc = "tscan0"), !.rtodo = 1..Len(w.matches)]
     ELSE wk' = [wk EXCEPT !.end = WRes, !.todo = w.last..(WRes-1)]
  /\ UNCHANGED <<w, bad>> /\ WUnch /\ UNCHANGED <<lock, notifyPending>>
MinOf(S) == CHOOSE x \in S : \A y \in S : x <= y
TScanItem ==
  /\ wk.pc \in {"tscan0", "tscan"} /\ wk.todo # {}
  /\ LET it == MinOf(wk.todo)
         w1 == IF it \in WPub THEN [w EXCEPT !.matches = Append(@, <<it, 0>>)] ELSE [w EXCEPT !.inflight = Append(@, it)]
         done == wk.todo = {it}
         w2 == IF done THEN [w1 EXCEPT !.last = wk.end] ELSE w1 IN
     /\ w' = w2
     /\ wk' = [wk EXCEPT !.todo = @ \ {it},
                         !.end = IF done THEN 0 ELSE @,
                         !.pc = IF done THEN (IF wk.pc = "tscan0" THEN "end" ELSE "rescore") ELSE @,
                         !.fin = IF done /\ wk.pc = "tscan0" THEN TRUE ELSE @,
                         !.rtodo = IF done THEN 1..Len(w2.matches) ELSE @]
  /\ UNCHANGED bad /\ WUnch /\ UNCHANGED <<lock, notifyPending>>

\* par_iter_mut().take_any_while(!canceled).for_each(..): a successful check admits one more element
RescoreCheck ==
  /\ wk.pc = "rescore" /\ ~canceled /\ wk.rok < Cardinality(wk.rtodo)
  /\ wk' = [wk EXCEPT !.rok = @ + 1]
  /\ UNCHANGED <<w, bad>> /\ WUnch /\ UNCHANGED <<lock, notifyPending>>
RescoreOne(k) ==
  /\ wk.pc = "rescore" /\ k \in wk.rtodo /\ wk.rok > 0 /\ w.matches[k][1] # MAXI
  /\ LET m == w.matches[k] IN
     /\ bad' = IF m[1] \in WPub THEN bad ELSE "deref-unpublished"
     /\ IF WScore(m[1]) # None
        THEN /\ w' = [w EXCEPT !.matches[k] = <<m[1], WScore(m[1])>>] /\ wk' = [wk EXCEPT !.rtodo = @ \ {k}, !.rok = @ - 1]
        ELSE /\ w' = [w EXCEPT !.matches[k] = <<MAXI, 0>>] /\ wk' = [wk EXCEPT !.rtodo = @ \ {k}, !.unmatched = @ + 1, !.rok = @ - 1]
  /\ WUnch /\ UNCHANGED <<lock, notifyPending>>
\* placeholders are only counted (S: the placeholder positions admitted; they are indistinguishable)
RescorePh(S) ==
  /\ wk.pc = "rescore" /\ S # {} /\ S \subseteq wk.rtodo /\ Cardinality(S) <= wk.rok /\ \A k \in S : w.matches[k][1] = MAXI
  /\ wk' = [wk EXCEPT !.rtodo = @ \ S, !.unmatched = @ + Cardinality(S), !.rok = @ - Cardinality(S)]
  /\ UNCHANGED <<w, bad>> /\ WUnch /\ UNCHANGED <<lock, notifyPending>>
RescoreDone ==
  /\ wk.pc = "rescore" /\ (wk.rtodo = {} \/ canceled) /\ wk.rok = 0
  /\ wk' = [wk EXCEPT !.pc = "sort", !.rtodo = {}]
  /\ UNCHANGED <<w, bad>> /\ WUnch /\ UNCHANGED <<lock, notifyPending>>

\* process_new_items: in_flight.retain(..), one items.get(idx) per in-flight index
RetryItem ==
  /\ wk.pc = "retry" /\ wk.ci <= Len(w.inflight)
  /\ LET it == w.inflight[wk.ci] IN
     IF it \in WPub
     THEN /\ w' = IF WScore(it) # None THEN [w EXCEPT !.matches = Append(@, <<it, WScore(it)>>)] ELSE w
          /\ wk' = [wk EXCEPT !.ci = @ + 1]
     ELSE /\ wk' = [wk EXCEPT !.ci = @ + 1, !.keep = Append(@, it)] /\ UNCHANGED w
  /\ UNCHANGED bad /\ WUnch /\ UNCHANGED <<lock, notifyPending>>
\* ... followed by par_snapshot(last_snapshot): the count is read once
RetryDone ==
  /\ wk.pc = "retry" /\ wk.ci > Len(w.inflight)
  /\ w' = [w EXCEPT !.inflight = wk.keep]
  /\ IF WRes = w.last THEN wk' = [wk EXCEPT !.pc = "sort", !.ci = 1, !.keep = <<>>]
     ELSE wk' = [wk EXCEPT !.pc = "scan", !.ci = 1, !.keep = <<>>, !.end = WRes, !.todo = w.last..(WRes-1),
                           !.res = [k \in 1..(WRes - w.last) |-> <<MAXI, 0>>]]
  /\ UNCHANGED bad /\ WUnch /\ UNCHANGED <<lock, notifyPending>>
ScanItem(it) ==   \* any unscanned item, on any pool thread
  /\ wk.pc = "scan" /\ it \in wk.todo
  /\ LET k == it - w.last + 1 IN
     IF it \notin WPub
     THEN /\ w' = [w EXCEPT !.inflight = Append(@, it)]
          /\ wk' = [wk EXCEPT !.todo = @ \ {it}, !.unmatched = @ + 1]
     ELSE IF canceled
     THEN /\ wk' = [wk EXCEPT !.todo = @ \ {it}, !.res[k] = <<it, 0>>] /\ UNCHANGED w
     ELSE IF WScore(it) # None
     THEN /\ wk' = [wk EXCEPT !.todo = @ \ {it}, !.res[k] = <<it, WScore(it)>>] /\ UNCHANGED w
     ELSE /\ wk' = [wk EXCEPT !.todo = @ \ {it}, !.unmatched = @ + 1] /\ UNCHANGED w
  /\ UNCHANGED bad /\ WUnch /\ UNCHANGED <<lock, notifyPending>>
ScanDone ==
  /\ wk.pc = "scan" /\ wk.todo = {}
  /\ w' = [w EXCEPT !.matches = @ \o wk.res, !.last = wk.end,
                    !.inflight = IF SortInflight THEN SortSeq(@, <) ELSE @]
  /\ wk' = [wk EXCEPT !.pc = "sort", !.res = <<>>, !.end = 0]
  /\ UNCHANGED bad /\ WUnch /\ UNCHANGED <<lock, notifyPending>>
\* c = what par_quicksort returns: TRUE iff it saw the cancel flag raised
SortStepWith(c) ==
  /\ wk.pc = "sort" /\ (c => canceled)
  /\ IF c
     THEN /\ w' = [w EXCEPT !.wasCanceled = TRUE] /\ wk' = [wk EXCEPT !.pc = "end", !.fin = FALSE] /\ UNCHANGED bad
     ELSE LET srt == SortSeq(w.matches, LAMBDA a, b : Less(w.items, a, b))
              real == { srt[k][1] : k \in 1..Len(srt) } \ {MAXI} IN
          /\ bad' = IF Len(srt) >= 2 /\ ~(real \subseteq WPub) THEN "deref-unpublished" ELSE bad
          /\ w' = [w EXCEPT !.matches = SubSeq(srt, 1, Len(srt) - wk.unmatched)]
          /\ wk' = [wk EXCEPT !.pc = "end", !.fin = TRUE, !.unmatched = 0]
  /\ WUnch /\ UNCHANGED <<lock, notifyPending>>
\* run() has returned (fin: it was not cancelled); the closure on the pool thread releases the lock first ...
RunEnd ==
  /\ wk.pc = "end" /\ lock' = "free" /\ wk' = [wk EXCEPT !.pc = "idle", !.unmatched = 0]
  /\ tails' = IF wk.fin THEN [tails EXCEPT !.read = @ + 1] ELSE tails
  /\ UNCHANGED <<w, bad, notifyPending>> /\ WCore
\* ... and only then looks at the flag (the next run may already have been spawned: the tail of a closure runs
\* concurrently with everything else)
NRead ==
  /\ tails.read > 0
  /\ tails' = [read |-> tails.read - 1, notify |-> tails.notify + (IF shouldNotify THEN 1 ELSE 0)]
  /\ UNCHANGED <<w, wk, bad>> /\ WCore /\ UNCHANGED <<lock, notifyPending>>
Notify ==
  /\ tails.notify > 0 /\ tails' = [tails EXCEPT !.notify = @ - 1] /\ notifyPending' = TRUE
  /\ UNCHANGED <<w, wk, bad, lock>> /\ WCore
\* RunEnd \cdot TickLock and RunEnd \cdot TickRetryOk written out: the unlock precedes the hook that reports it, so
\* an acquisition may be recorded first (trace validation only)
RunEndThenAcquire ==
  /\ wk.pc = "end" /\ lock = "w" /\ ui.pc \in {"lockwait", "try", "retry"}
  /\ lock' = "ui" /\ wk' = [wk EXCEPT !.pc = "idle", !.unmatched = 0] /\ ui' = [ui EXCEPT !.pc = "locked"]
  /\ tails' = IF wk.fin THEN [tails EXCEPT !.read = @ + 1] ELSE tails
  /\ UNCHANGED <<resv, wst, pub, data, cur, pat, patStatus, state, snap, canceled, shouldNotify, w,
                 notifyPending, wake, promise, lastRunning, ticks, edits, bad>>

\* ---------------- properties
\* C06
NoBadDeref == bad = "ok"
SnapshotSafe == \A k \in 1..Len(snap.matches) : snap.matches[k][1] \in pub[snap.items]
SnapshotNoDup == \A k, l \in 1..Len(snap.matches) : k # l => snap.matches[k][1] # snap.matches[l][1]
SnapshotScores == \A k \in 1..Len(snap.matches) : snap.matches[k][1] \in Items /\ snap.matches[k][2] = Score(snap.items, snap.pat, snap.matches[k][1])
SnapshotOrder == \A k \in 1..Len(snap.matches) - 1 :
                    IF snap.pat = 0 THEN snap.matches[k][1] < snap.matches[k+1][1] ELSE Less(snap.items, snap.matches[k], snap.matches[k+1])
SnapshotCount == Len(snap.matches) <= snap.count /\ snap.count <= resv[snap.items]
\* C12
RestartIsolation == snap.items <= cur /\ w.items <= cur
\* C07 / C13 / C19
WritersQuiet == \A s \in Streams : \A it \in Items : wst[s][it] \in {0, 3}
Quiescent == ui.pc = "idle" /\ wk.pc = "idle" /\ tails = tails0 /\ WritersQuiet /\ ~notifyPending /\ ~wake
NoLostWakeup == ~(Quiescent /\ promise)
Converged == (Quiescent /\ ~lastRunning /\ ticks > 0) => (snap.items = cur /\ [count |-> snap.count, matches |-> snap.matches, pat |-> snap.pat] = FromScratch(cur, pat, pub[cur]))
RunningFalseMeansCaughtUp == (ui.pc = "idle" /\ ~lastRunning /\ ticks > 0 /\ wk.pc = "idle" /\ ~wake) => snap.pat = pat
=============================================================================
