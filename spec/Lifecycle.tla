----------------------------- MODULE Lifecycle -----------------------------
(***************************************************************************)
(* The handle algebra of Nucleo (C20, and the reachability part of C11):   *)
(* which item stream the matcher, its worker and its snapshot refer to,    *)
(* which injector handles are alive, and what active_injectors() reports.  *)
(* Sequential view: a tick either completes (the spawned run finishes and  *)
(* is taken over within the call) or its second lock attempt times out     *)
(* (the run stays behind and is taken over by a later tick).               *)
(*                                                                         *)
(* The code derives the count from a reference count:                      *)
(*    strong_count(items) - state.matcher_item_refs() - [snapshot is cur]  *)
(* The model carries the holders of each stream explicitly and checks that *)
(* this formula equals the number of live handles of the current stream in *)
(* every reachable state (ActiveFormulaCorrect).                           *)
(***************************************************************************)
EXTENDS Integers, Sequences, FiniteSets, TLC

CONSTANTS MaxHandles, MaxRestarts, MaxCreated

VARIABLES cur,        \* stream the matcher injects into (Nucleo.items)
          wstream,    \* stream the worker holds (Worker.items)
          sstream,    \* stream the snapshot holds (Snapshot.items)
          state,      \* "Init" | "Cleared" | "Fresh"
          handles,    \* set of <<handle id, stream>>
          nexth,      \* next handle id
          pending,    \* a run was left behind by a timed-out tick (worker lock held / results not yet taken over)
          pendcur     \* ... and that run was started over the current stream and is not invalidated by a restart
lvars == <<cur, wstream, sstream, state, handles, nexth, pending, pendcur>>

Init == /\ cur = 0 /\ wstream = 0 /\ sstream = 0 /\ state = "Init" /\ handles = {} /\ nexth = 1
        /\ pending = FALSE /\ pendcur = FALSE

Live == {h[1] : h \in handles}
StreamOfH(h) == (CHOOSE x \in handles : x[1] = h)[2]

NewInjector == /\ Cardinality(handles) < MaxHandles /\ nexth <= MaxCreated
               /\ handles' = handles \cup {<<nexth, cur>>} /\ nexth' = nexth + 1
               /\ UNCHANGED <<cur, wstream, sstream, state, pending, pendcur>>
CloneInjector(h) == /\ Cardinality(handles) < MaxHandles /\ nexth <= MaxCreated /\ h \in Live
                    /\ handles' = handles \cup {<<nexth, StreamOfH(h)>>} /\ nexth' = nexth + 1
                    /\ UNCHANGED <<cur, wstream, sstream, state, pending, pendcur>>
DropInjector(h) == /\ h \in Live /\ handles' = {x \in handles : x[1] # h}
                   /\ UNCHANGED <<cur, wstream, sstream, state, nexth, pending, pendcur>>
Restart(clear) == /\ cur < MaxRestarts
                  /\ cur' = cur + 1 /\ state' = "Cleared"
                  /\ sstream' = IF clear THEN cur + 1 ELSE sstream
                  /\ pendcur' = FALSE           \* results of a run over the old stream must be discarded
                  /\ UNCHANGED <<wstream, handles, nexth, pending>>

\* tick: `cancel` = the worker must restart (state is not Fresh); a pattern edit is not modelled (it only matters
\* for scores).  First phase (cancel): wait for the worker, hand it the current stream, spawn.  Then one attempt
\* to take over the run's results: succeeds (completes = TRUE) or times out.
Tick(completes) ==
  LET cancel == state # "Fresh"
      \* phase 1 takes over an earlier run's results only if they are still valid (not cancelled, state Fresh)
      s1 == IF pending /\ pendcur /\ ~cancel THEN wstream ELSE sstream
      w1 == IF cancel THEN cur ELSE wstream IN
  /\ wstream' = w1
  /\ state' = "Fresh"
  /\ IF cancel
     THEN \* a new run over `cur` was spawned in phase 1
          /\ sstream' = IF completes THEN w1 ELSE s1
          /\ pending' = ~completes /\ pendcur' = ~completes
     ELSE \* no cancel: a single lock attempt; an earlier run (if any) is taken over when the lock is free
          /\ sstream' = IF completes THEN s1 ELSE sstream
          /\ pending' = IF completes THEN FALSE ELSE pending
          /\ pendcur' = IF completes THEN FALSE ELSE pendcur
  /\ UNCHANGED <<cur, handles, nexth>>

Next == \/ NewInjector
        \/ \E h \in Live : CloneInjector(h) \/ DropInjector(h)
        \/ \E c \in BOOLEAN : Restart(c)
        \/ \E c \in BOOLEAN : Tick(c)

\* ---- what the code computes ------------------------------------------------------------------------------
StrongCount == 1 + (IF wstream = cur THEN 1 ELSE 0) + (IF sstream = cur THEN 1 ELSE 0)
                 + Cardinality({h \in handles : h[2] = cur})
MatcherItemRefs == IF state = "Cleared" THEN 1 ELSE 2
ActiveFormula == StrongCount - MatcherItemRefs - (IF sstream = cur THEN 1 ELSE 0)
ActiveTruth == Cardinality({h \in handles : h[2] = cur})

ActiveFormulaCorrect == ActiveFormula = ActiveTruth
WorkerStreamDiscipline == (wstream = cur) <=> (state # "Cleared")
SnapshotNeverAhead == sstream <= cur /\ wstream <= cur
=============================================================================
