------------------------------- MODULE Boxcar -------------------------------
(***************************************************************************)
(* The lock-free append-only item vector (src/boxcar.rs) at the            *)
(* granularity of its atomic operations, for exhaustive exploration.       *)
(*                                                                         *)
(* Geometry: bucket b has 2^(b+SKIPLOG) entries (SKIPLOG = 5 in the code;  *)
(* the model uses 1 so that three buckets are crossed with a handful of    *)
(* items).  One action per atomic operation / non-atomic access:           *)
(*   push    FetchAdd, (eager) Alloc + Cas, LoadBucket, Alloc + Cas,       *)
(*           Fill (may panic), WriteSlot, StoreActive, Return              *)
(*   extend  the same per element, with the iterator-length assertion      *)
(*   get     LoadBucket, LoadActive, ReadData                              *)
(*   count   LoadInflight                                                  *)
(*   snap    snapshot(start): LoadInflight, then per index LoadBucket       *)
(*           (again after stepping over a bucket end), LoadActive, ReadData *)
(*   drop    the bucket walk of Drop for Vec                               *)
(*                                                                         *)
(* C09 is carried by a finite "known writes" abstraction of happens-before:*)
(* kn[t] is the set of non-atomic writes (bucket initialisations <<"b",a>>, *)
(* entry writes <<"e",i>>) that happen-before thread t's next step; a       *)
(* release operation publishes kn[t] at the atomic location, an acquire    *)
(* operation merges what is published there, a relaxed store publishes     *)
(* nothing, an RMW continues the release sequence.  WHICH operations are   *)
(* release / acquire is the constant Ords -- the table extracted from the  *)
(* atomic operations the real code was observed to execute (the cfg-gated  *)
(* shim logs the ordering written in the source), so a weakened ordering   *)
(* in the code is confronted with every interleaving of this model.        *)
(***************************************************************************)
EXTENDS Naturals, Sequences, FiniteSets, TLC

CONSTANTS Threads, NB, SKIPLOG, Progs, Ords

\* Ords: record site |-> "rlx" | "acq" | "rel" | "acqrel" | "sc" for the sites
\*   fa (inflight.fetch_add), lb_push (bucket load in push/extend), cas_ok, cas_fail (get_or_alloc),
\*   sa_push, sa_ext (active.store), lb_get (bucket load in get / iteration), la_get (active load in get / iteration), cnt (inflight load)
Acq(o) == o \in {"acq", "acqrel", "sc"}
Rel(o) == o \in {"rel", "acqrel", "sc"}

BLen(b) == 2^(b + SKIPLOG)
BStart(b) == BLen(b) - 2^SKIPLOG
Cap == BStart(NB)
BucketOf(idx) == CHOOSE b \in 0..(NB-1) : BStart(b) <= idx /\ idx < BStart(b) + BLen(b)
EntryOf(idx) == idx - BStart(BucketOf(idx))

VARIABLES inflight, bptr, allocs, nalloc, ent, pc, lc, prog, kn, relk, dropped, done, vecgone, bad
vars == <<inflight, bptr, allocs, nalloc, ent, pc, lc, prog, kn, relk, dropped, done, vecgone, bad>>

NoEnt == [slot |-> 0, filled |-> FALSE, active |-> FALSE]
LocInflight == <<"inflight", 0>>
LocBkt(b) == <<"bkt", b>>
LocAct(idx) == <<"act", idx>>
Locs == {LocInflight} \cup {LocBkt(b) : b \in 0..(NB-1)} \cup {LocAct(idx) : idx \in 0..(Cap-1)}

Init ==
  /\ inflight = 0
  /\ bptr = [b \in 0..(NB-1) |-> IF b = 0 THEN 1 ELSE 0]        \* with_capacity allocates bucket 0 (alloc id 1)
  /\ allocs = {[id |-> 1, b |-> 0]} /\ nalloc = 1
  /\ ent = [idx \in 0..(Cap-1) |-> NoEnt]
  /\ pc = [t \in Threads |-> "idle"]
  /\ lc = [t \in Threads |-> [idx |-> 0, n |-> 0, j |-> 0, vals |-> <<>>, e |-> 0, a |-> 0, b |-> 0, res |-> 0, seen |-> {}, after |-> ""]]
  /\ prog \in Progs
  /\ kn = [t \in Threads |-> {<<"b", 1>>}]                        \* thread spawn: the creator's writes are known
  /\ relk = [l \in Locs |-> {}]
  /\ dropped = <<>> /\ done = {} /\ vecgone = FALSE /\ bad = "ok"

\* ---- atomic-operation helpers (effects on kn / relk) ------------------------------------------------------
LoadK(t, l, o) == IF Acq(o) THEN kn[t] \cup relk[l] ELSE kn[t]
StoreRelk(t, l, o, k) == IF Rel(o) THEN [relk EXCEPT ![l] = k] ELSE [relk EXCEPT ![l] = {}]
RmwRelk(t, l, o, k) == IF Rel(o) THEN [relk EXCEPT ![l] = @ \cup k] ELSE relk

Op(t) == Head(prog[t])
Cur(t) == lc[t].idx + lc[t].j
Unch(vs) == UNCHANGED vs

\* ---- call start -----------------------------------------------------------------------------------------------
StartBody(t, op) ==
  /\ pc' = [pc EXCEPT ![t] = IF op.k = "get" THEN "g_lb" ELSE IF op.k = "count" THEN "c_ld" ELSE IF op.k = "snap" THEN "s_cnt" ELSE "fa"]
  /\ lc' = [lc EXCEPT ![t] = [idx |-> IF op.k = "get" THEN op.i ELSE IF op.k = "snap" THEN op.start ELSE 0,
                              n |-> IF op.k \in {"push", "pushpanic"} THEN 1 ELSE IF op.k = "ext" THEN op.rep ELSE 0,
                              j |-> 0,
                              vals |-> IF op.k \in {"push", "pushpanic"} THEN <<op.v>> ELSE IF op.k = "ext" THEN op.vals ELSE <<>>,
                              e |-> 0, a |-> 0, b |-> 0, res |-> 0,
                              seen |-> {d.idx : d \in {x \in done : x.k = "push"}}, after |-> ""]]
Start(t) ==
  /\ pc[t] = "idle" /\ prog[t] # <<>> /\ ~vecgone
  /\ StartBody(t, Op(t))
  /\ Unch(<<inflight, bptr, allocs, nalloc, ent, prog, kn, relk, dropped, done, vecgone, bad>>)
\* a call whose operation is given from outside (trace validation: the operation is the recorded call)
Call(t, op) ==
  /\ pc[t] = "idle" /\ ~vecgone
  /\ prog' = [prog EXCEPT ![t] = <<op>>]
  /\ StartBody(t, op)
  /\ Unch(<<inflight, bptr, allocs, nalloc, ent, kn, relk, dropped, done, vecgone, bad>>)

\* ---- push / extend ----------------------------------------------------------------------------------------------
FetchAdd(t) ==
  /\ pc[t] = "fa"
  /\ IF lc[t].n = 0
     THEN \* extend with reported length 0: asserts that the iterator is empty
          /\ pc' = [pc EXCEPT ![t] = IF lc[t].vals = <<>> THEN "ret" ELSE "panic"]
          /\ Unch(<<inflight, lc, kn, relk>>)
     ELSE /\ inflight + lc[t].n <= Cap
          /\ lc' = [lc EXCEPT ![t].idx = inflight] /\ inflight' = inflight + lc[t].n
          /\ kn' = [kn EXCEPT ![t] = LoadK(t, LocInflight, Ords.fa)]
          /\ relk' = RmwRelk(t, LocInflight, Ords.fa, kn[t])
          /\ pc' = [pc EXCEPT ![t] = "eager"]
  /\ Unch(<<bptr, allocs, nalloc, ent, prog, dropped, done, vecgone, bad>>)

\* eagerly allocate the next bucket when the reservation comes close to the end of its bucket
EagerWanted(t) ==
  LET op == Op(t) IN
  IF op.k = "ext"
  THEN LET sb == BucketOf(lc[t].idx)
           endi == lc[t].idx + lc[t].n
           eb == IF endi < Cap THEN BucketOf(endi) ELSE NB - 1
           ee == IF endi < Cap THEN EntryOf(endi) ELSE 0
           ae == BLen(eb) - (BLen(eb) \div 8) IN
       endi < Cap /\ ee >= ae /\ (sb # eb \/ EntryOf(lc[t].idx) <= ae) /\ eb + 1 < NB
  ELSE LET b == BucketOf(lc[t].idx) IN lc[t].idx = BLen(b) - (BLen(b) \div 8) /\ b + 1 < NB
EagerBucket(t) == IF Op(t).k = "ext" THEN BucketOf(lc[t].idx + lc[t].n) + 1 ELSE BucketOf(lc[t].idx) + 1

Eager(t) ==
  /\ pc[t] = "eager"
  /\ IF EagerWanted(t)
     THEN /\ pc' = [pc EXCEPT ![t] = "alloc"] /\ lc' = [lc EXCEPT ![t].b = EagerBucket(t), ![t].after = "lb"]
     ELSE /\ pc' = [pc EXCEPT ![t] = "lb"] /\ Unch(lc)
  /\ Unch(<<inflight, bptr, allocs, nalloc, ent, prog, kn, relk, dropped, done, vecgone, bad>>)

\* Bucket::alloc: fresh memory, active flags initialised non-atomically
Alloc(t) ==
  /\ pc[t] = "alloc"
  /\ nalloc' = nalloc + 1 /\ allocs' = allocs \cup {[id |-> nalloc + 1, b |-> lc[t].b]}
  /\ lc' = [lc EXCEPT ![t].a = nalloc + 1]
  /\ kn' = [kn EXCEPT ![t] = @ \cup {<<"b", nalloc + 1>>}]
  /\ pc' = [pc EXCEPT ![t] = "cas"]
  /\ Unch(<<inflight, bptr, ent, prog, relk, dropped, done, vecgone, bad>>)

\* compare_exchange(null, new, Release, Acquire); the loser frees its allocation
Cas(t) ==
  /\ pc[t] = "cas"
  /\ LET b == lc[t].b IN
     IF bptr[b] = 0
     THEN /\ bptr' = [bptr EXCEPT ![b] = lc[t].a]
          /\ kn' = [kn EXCEPT ![t] = LoadK(t, LocBkt(b), Ords.cas_ok)]
          /\ relk' = RmwRelk(t, LocBkt(b), Ords.cas_ok, kn[t])
          /\ lc' = [lc EXCEPT ![t].e = IF lc[t].after = "fill" THEN lc[t].a ELSE @]
          /\ Unch(allocs)
     ELSE /\ kn' = [kn EXCEPT ![t] = LoadK(t, LocBkt(b), Ords.cas_fail)]
          /\ allocs' = {x \in allocs : x.id # lc[t].a}
          /\ lc' = [lc EXCEPT ![t].e = IF lc[t].after = "fill" THEN bptr[b] ELSE @]
          /\ Unch(<<bptr, relk>>)
  /\ pc' = [pc EXCEPT ![t] = lc[t].after]
  /\ Unch(<<inflight, nalloc, ent, prog, dropped, done, vecgone, bad>>)

\* load the bucket pointer of the current element (push: once; extend: at the start and at every bucket start)
LoadBucket(t) ==
  /\ pc[t] = "lb"
  /\ IF lc[t].j >= Len(lc[t].vals) THEN   \* iterator exhausted (short or honest)
          /\ pc' = [pc EXCEPT ![t] = "ret"] /\ Unch(<<lc, kn>>)
     ELSE IF lc[t].j >= lc[t].n THEN      \* assert!(i < count): the iterator yields more than it reported
          /\ pc' = [pc EXCEPT ![t] = "panic"] /\ Unch(<<lc, kn>>)
     ELSE LET b == BucketOf(Cur(t)) IN
          IF lc[t].j = 0 \/ EntryOf(Cur(t)) = 0
          THEN /\ kn' = [kn EXCEPT ![t] = LoadK(t, LocBkt(b), Ords.lb_push)]
               /\ IF bptr[b] = 0
                  THEN /\ pc' = [pc EXCEPT ![t] = "alloc"] /\ lc' = [lc EXCEPT ![t].b = b, ![t].after = "fill"]
                  ELSE /\ pc' = [pc EXCEPT ![t] = "fill"] /\ lc' = [lc EXCEPT ![t].e = bptr[b]]
          ELSE /\ pc' = [pc EXCEPT ![t] = "fill"] /\ Unch(<<lc, kn>>)
  /\ Unch(<<inflight, bptr, allocs, nalloc, ent, prog, relk, dropped, done, vecgone, bad>>)

\* column initialisation + fill callback (non-atomic writes into the bucket memory); the callback may panic
Fill(t) ==
  /\ pc[t] = "fill"
  /\ bad' = IF <<"b", lc[t].e>> \in kn[t] THEN bad ELSE "race-bucket-memory"
  /\ IF Op(t).k = "pushpanic"
     THEN /\ pc' = [pc EXCEPT ![t] = "panic"] /\ Unch(ent)
     ELSE /\ ent' = [ent EXCEPT ![Cur(t)].filled = TRUE] /\ pc' = [pc EXCEPT ![t] = "ws"]
  /\ Unch(<<inflight, bptr, allocs, nalloc, lc, prog, kn, relk, dropped, done, vecgone>>)

WriteSlot(t) ==
  /\ pc[t] = "ws"
  /\ bad' = IF ent[Cur(t)].slot # 0 THEN "slot-written-twice" ELSE bad
  /\ ent' = [ent EXCEPT ![Cur(t)].slot = lc[t].vals[lc[t].j + 1]]
  /\ kn' = [kn EXCEPT ![t] = @ \cup {<<"e", Cur(t)>>}]
  /\ pc' = [pc EXCEPT ![t] = "sa"]
  /\ Unch(<<inflight, bptr, allocs, nalloc, lc, prog, relk, dropped, done, vecgone>>)

StoreActive(t) ==
  /\ pc[t] = "sa"
  /\ LET o == IF Op(t).k = "ext" THEN Ords.sa_ext ELSE Ords.sa_push IN
     /\ ent' = [ent EXCEPT ![Cur(t)].active = TRUE]
     /\ relk' = StoreRelk(t, LocAct(Cur(t)), o, kn[t])
  /\ lc' = [lc EXCEPT ![t].j = @ + 1]
  /\ pc' = [pc EXCEPT ![t] = IF Op(t).k = "ext" THEN "lb" ELSE "ret"]
  /\ Unch(<<inflight, bptr, allocs, nalloc, prog, kn, dropped, done, vecgone, bad>>)

\* unwinding drops the value the callback was called for and whatever the iterator still holds
Panic(t) ==
  /\ pc[t] = "panic"
  /\ dropped' = dropped \o SubSeq(lc[t].vals, lc[t].j + 1, Len(lc[t].vals))
  /\ done' = done \cup {[t |-> t, k |-> Op(t).k, idx |-> lc[t].idx, n |-> lc[t].j, panicked |-> TRUE, res |-> 0]}
  /\ pc' = [pc EXCEPT ![t] = "idle"] /\ prog' = [prog EXCEPT ![t] = Tail(@)]
  /\ Unch(<<inflight, bptr, allocs, nalloc, ent, lc, kn, relk, vecgone, bad>>)

Return(t) ==
  /\ pc[t] = "ret"
  /\ done' = done \cup {IF Op(t).k = "snap"
                         THEN [t |-> t, k |-> "snap", idx |-> lc[t].idx, n |-> lc[t].res, panicked |-> FALSE, res |-> lc[t].res, items |-> lc[t].vals]
                         ELSE [t |-> t, k |-> Op(t).k, idx |-> lc[t].idx, n |-> lc[t].j, panicked |-> FALSE, res |-> lc[t].res]}
  /\ pc' = [pc EXCEPT ![t] = "idle"] /\ prog' = [prog EXCEPT ![t] = Tail(@)]
  /\ Unch(<<inflight, bptr, allocs, nalloc, ent, lc, kn, relk, dropped, vecgone, bad>>)

\* ---- get ------------------------------------------------------------------------------------------------------
GetLoadBucket(t) ==
  /\ pc[t] = "g_lb"
  /\ LET idx == lc[t].idx  b == IF idx < Cap THEN BucketOf(idx) ELSE 0 IN
     IF idx >= Cap \/ bptr[b] = 0
     THEN /\ pc' = [pc EXCEPT ![t] = "g_ret"] /\ lc' = [lc EXCEPT ![t].res = 0]
          /\ kn' = [kn EXCEPT ![t] = IF idx < Cap THEN LoadK(t, LocBkt(b), Ords.lb_get) ELSE @]
     ELSE /\ pc' = [pc EXCEPT ![t] = "g_la"] /\ lc' = [lc EXCEPT ![t].e = bptr[b]]
          /\ kn' = [kn EXCEPT ![t] = LoadK(t, LocBkt(b), Ords.lb_get)]
  /\ Unch(<<inflight, bptr, allocs, nalloc, ent, prog, relk, dropped, done, vecgone, bad>>)

GetLoadActive(t) ==
  /\ pc[t] = "g_la"
  \* the flag lives in the bucket memory: its (non-atomic) initialisation must happen-before this access
  /\ bad' = IF <<"b", lc[t].e>> \in kn[t] THEN bad ELSE "race-bucket-memory"
  /\ kn' = [kn EXCEPT ![t] = LoadK(t, LocAct(lc[t].idx), Ords.la_get)]
  /\ IF ent[lc[t].idx].active
     THEN pc' = [pc EXCEPT ![t] = "g_rd"] /\ Unch(lc)
     ELSE pc' = [pc EXCEPT ![t] = "g_ret"] /\ lc' = [lc EXCEPT ![t].res = 0]
  /\ Unch(<<inflight, bptr, allocs, nalloc, ent, prog, relk, dropped, done, vecgone>>)

GetRead(t) ==
  /\ pc[t] = "g_rd"
  /\ bad' = IF <<"e", lc[t].idx>> \notin kn[t] THEN "race-entry-read"
            ELSE IF ent[lc[t].idx].slot = 0 \/ ~ent[lc[t].idx].filled THEN "read-of-unwritten-entry" ELSE bad
  /\ lc' = [lc EXCEPT ![t].res = ent[lc[t].idx].slot]
  /\ pc' = [pc EXCEPT ![t] = "g_ret"]
  /\ Unch(<<inflight, bptr, allocs, nalloc, ent, prog, kn, relk, dropped, done, vecgone>>)

GetReturn(t) ==
  /\ pc[t] = "g_ret"
  \* read-your-writes: a push of this index that had returned before the lookup began must be visible
  /\ bad' = IF lc[t].res = 0 /\ lc[t].idx \in lc[t].seen THEN "completed-push-not-visible" ELSE bad
  /\ done' = done \cup {[t |-> t, k |-> "get", idx |-> lc[t].idx, n |-> 0, panicked |-> FALSE, res |-> lc[t].res]}
  /\ pc' = [pc EXCEPT ![t] = "idle"] /\ prog' = [prog EXCEPT ![t] = Tail(@)]
  /\ Unch(<<inflight, bptr, allocs, nalloc, ent, lc, kn, relk, dropped, vecgone>>)

\* ---- snapshot(start): a deterministically sized iteration -----------------------------------------------------
\* lc.idx = next index, lc.n = end, lc.b / lc.j = the iterator's bucket / entry within it, lc.vals = what was yielded
\* (<<index, value or 0>>), lc.res = number of items yielded
SnapCount(t) ==
  /\ pc[t] = "s_cnt" /\ lc[t].idx <= inflight /\ lc[t].idx < Cap
  /\ kn' = [kn EXCEPT ![t] = LoadK(t, LocInflight, Ords.cnt)]
  /\ LET end == IF inflight > Cap THEN Cap ELSE inflight IN
     /\ lc' = [lc EXCEPT ![t].n = end, ![t].b = BucketOf(lc[t].idx), ![t].j = EntryOf(lc[t].idx)]
     /\ pc' = [pc EXCEPT ![t] = IF lc[t].idx = end THEN "ret" ELSE "s_lb"]
  /\ Unch(<<inflight, bptr, allocs, nalloc, ent, prog, relk, dropped, done, vecgone, bad>>)
SnapAdvance(l, y) == [l EXCEPT !.idx = @ + 1, !.j = @ + 1, !.vals = Append(@, y), !.res = @ + 1]
SnapLoadBucket(t) ==
  /\ pc[t] = "s_lb"
  /\ LET b == lc[t].b IN
     /\ kn' = [kn EXCEPT ![t] = LoadK(t, LocBkt(b), Ords.lb_get)]
     /\ IF lc[t].j >= BLen(b)
        THEN \* the entry index ran off the bucket: step to the next bucket and load again
             /\ lc' = [lc EXCEPT ![t].b = b + 1, ![t].j = 0] /\ Unch(pc)
        ELSE IF bptr[b] = 0
        THEN \* a bucket nobody has allocated yet: the index is yielded as "not there"
             LET l2 == SnapAdvance(lc[t], <<lc[t].idx, 0>>) IN
             /\ lc' = [lc EXCEPT ![t] = l2] /\ pc' = [pc EXCEPT ![t] = IF l2.idx = l2.n THEN "ret" ELSE "s_lb"]
        ELSE /\ lc' = [lc EXCEPT ![t].e = bptr[b]] /\ pc' = [pc EXCEPT ![t] = "s_la"]
  /\ Unch(<<inflight, bptr, allocs, nalloc, ent, prog, relk, dropped, done, vecgone, bad>>)
SnapLoadActive(t) ==
  /\ pc[t] = "s_la"
  /\ bad' = IF <<"b", lc[t].e>> \in kn[t] THEN bad ELSE "race-bucket-memory"
  /\ kn' = [kn EXCEPT ![t] = LoadK(t, LocAct(lc[t].idx), Ords.la_get)]
  /\ IF ent[lc[t].idx].active
     THEN pc' = [pc EXCEPT ![t] = "s_rd"] /\ Unch(lc)
     ELSE LET l2 == SnapAdvance(lc[t], <<lc[t].idx, 0>>) IN
          lc' = [lc EXCEPT ![t] = l2] /\ pc' = [pc EXCEPT ![t] = IF l2.idx = l2.n THEN "ret" ELSE "s_lb"]
  /\ Unch(<<inflight, bptr, allocs, nalloc, ent, prog, relk, dropped, done, vecgone>>)
SnapRead(t) ==
  /\ pc[t] = "s_rd"
  /\ bad' = IF <<"e", lc[t].idx>> \notin kn[t] THEN "race-entry-read"
            ELSE IF ent[lc[t].idx].slot = 0 \/ ~ent[lc[t].idx].filled THEN "read-of-unwritten-entry" ELSE bad
  /\ LET l2 == SnapAdvance(lc[t], <<lc[t].idx, ent[lc[t].idx].slot>>) IN
     lc' = [lc EXCEPT ![t] = l2] /\ pc' = [pc EXCEPT ![t] = IF l2.idx = l2.n THEN "ret" ELSE "s_lb"]
  /\ Unch(<<inflight, bptr, allocs, nalloc, ent, prog, kn, relk, dropped, done, vecgone>>)

\* ---- count ----------------------------------------------------------------------------------------------------
CountLoad(t) ==
  /\ pc[t] = "c_ld"
  /\ kn' = [kn EXCEPT ![t] = LoadK(t, LocInflight, Ords.cnt)]
  /\ bad' = IF inflight < Cardinality({d \in done : d.k = "push"}) THEN "count-below-completed-pushes" ELSE bad
  /\ lc' = [lc EXCEPT ![t].res = inflight] /\ pc' = [pc EXCEPT ![t] = "ret"]
  /\ Unch(<<inflight, bptr, allocs, nalloc, ent, prog, relk, dropped, done, vecgone>>)

\* ---- drop of the vector once every thread is finished (joined: everything is known to the dropper) -------------
RECURSIVE DropWalk(_, _, _)
DropWalk(b, dr, al) ==    \* <<dropped values, remaining allocations>>
  IF b >= NB THEN <<dr, al>>
  ELSE IF bptr[b] = 0 THEN DropWalk(b + 1, dr, al)        \* (repaired) a never allocated bucket is skipped
  ELSE LET idxs == {x \in BStart(b)..(BStart(b) + BLen(b) - 1) : ent[x].active}
           RECURSIVE Vals(_)
           Vals(S) == IF S = {} THEN <<>> ELSE LET x == CHOOSE y \in S : \A z \in S : y <= z IN <<ent[x].slot>> \o Vals(S \ {x}) IN
       DropWalk(b + 1, dr \o Vals(idxs), {x \in al : x.id # bptr[b]})

DropVec ==
  /\ ~vecgone /\ \A t \in Threads : pc[t] = "idle" /\ prog[t] = <<>>
  /\ LET r == DropWalk(0, dropped, allocs) IN dropped' = r[1] /\ allocs' = r[2]
  /\ vecgone' = TRUE
  /\ Unch(<<inflight, bptr, nalloc, ent, pc, lc, prog, kn, relk, done, bad>>)

Next == (\E t \in Threads : Start(t) \/ FetchAdd(t) \/ Eager(t) \/ Alloc(t) \/ Cas(t) \/ LoadBucket(t) \/ Fill(t) \/ WriteSlot(t)
                             \/ StoreActive(t) \/ Panic(t) \/ Return(t) \/ GetLoadBucket(t) \/ GetLoadActive(t) \/ GetRead(t)
                             \/ GetReturn(t) \/ CountLoad(t) \/ SnapCount(t) \/ SnapLoadBucket(t) \/ SnapLoadActive(t) \/ SnapRead(t))
        \/ DropVec
Spec == Init /\ [][Next]_vars

\* ---- properties ----------------------------------------------------------------------------------------------
\* C08
NoBad == bad \notin {"slot-written-twice", "read-of-unwritten-entry", "completed-push-not-visible", "count-below-completed-pushes"}
ActiveWritten == \A idx \in 0..(Cap-1) : ent[idx].active => (ent[idx].slot # 0 /\ ent[idx].filled)
DistinctIndices ==
  \A a, b \in {d \in done : d.k \in {"push", "ext"} /\ d.n > 0} :
      a # b => (a.idx + a.n <= b.idx \/ b.idx + b.n <= a.idx)
\* a completed iteration yielded start..end-1 in order, each once, and the value of every entry whose push had
\* returned before the iteration began
SnapshotsExact ==
  \A d \in {x \in done : x.k = "snap"} :
     /\ \A k \in 1..Len(d.items) : d.items[k][1] = d.idx - Len(d.items) + k - 1
     /\ \A k \in 1..Len(d.items) : d.items[k][2] # 0 => ent[d.items[k][1]].slot = d.items[k][2]
\* C09
RaceFree == bad \notin {"race-bucket-memory", "race-entry-read"}
\* C11
DroppedOnce == \A k, l \in 1..Len(dropped) : k # l => dropped[k] # dropped[l]
NothingLeaked == vecgone => (allocs = {} /\ {ent[idx].slot : idx \in {x \in 0..(Cap-1) : ent[x].active}} \subseteq {dropped[k] : k \in 1..Len(dropped)})
NoDropWhileAlive == ~vecgone => \A k \in 1..Len(dropped) : \A idx \in 0..(Cap-1) : ~(ent[idx].active /\ ent[idx].slot = dropped[k])
=============================================================================
