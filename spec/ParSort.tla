------------------------------ MODULE ParSort ------------------------------
(***************************************************************************)
(* C18: the cancellable parallel sort, at call granularity.                *)
(*                                                                         *)
(* Sort(in, raised, out, reported): out is a permutation of in; if the     *)
(* call reports "not cancelled" out is sorted under the strict weak order; *)
(* it may report "cancelled" only if the cancel flag was actually raised.  *)
(* The order is the worker's: score descending, placeholders (idx = -1)    *)
(* after real matches of the same score, then total length ascending, then *)
(* index ascending -- a total order on distinct indices, so the sorted     *)
(* permutation is unique (lemma checked exhaustively by ParSortMC) and the *)
(* result cannot depend on the number of threads.                          *)
(* An element is <<score, len, idx>>; positions identify elements.         *)
(***************************************************************************)
EXTENDS Integers, Sequences, FiniteSets, TLC, Json, IOUtils

Less(a, b) ==
  IF a[1] # b[1] THEN a[1] > b[1]
  ELSE IF a[3] < 0 THEN FALSE
  ELSE IF b[3] < 0 THEN TRUE
  ELSE IF a[2] = b[2] THEN a[3] < b[3]
  ELSE a[2] < b[2]

\* generator families of the harness (mirrors sorttrace.rs)
KeyLen(p) == ((p % 97) * 31) % 17
Min2(a, b) == IF a < b THEN a ELSE b
Max2(a, b) == IF a > b THEN a ELSE b
Mix(p, seed) == (((p % 9973) * 7919) + (seed % 10007)) % 10007
GenScore(fam, p, n, param, seed) ==
  IF fam = "sorted" THEN n - p
  ELSE IF fam = "reversed" THEN p
  ELSE IF fam = "organ" THEN Min2(p, n - p)
  ELSE IF fam = "saw" THEN p % Max2(param, 1)
  ELSE IF fam = "equal" THEN 7
  ELSE IF fam = "few" THEN Mix(p, seed) % Max2(param, 1)
  ELSE Mix(p, seed)

\* key of the element that started at position p (0-based) of call record r
Key(r, p) ==
  IF r.explicit THEN r.keys[p + 1]
  ELSE IF r.ph /\ (p % 11) = 3 THEN <<0, KeyLen(p), -1>>
  ELSE <<GenScore(r.fam, p, r.n, r.param, r.seed), KeyLen(p), p>>

IsPermutation(r) ==
  /\ Len(r.out) = r.n
  /\ \A k \in 1..r.n : r.out[k] >= 0 /\ r.out[k] < r.n
  /\ Cardinality({r.out[k] : k \in 1..r.n}) = r.n

IsSorted(r) == \A k \in 1..r.n - 1 : ~Less(Key(r, r.out[k + 1]), Key(r, r.out[k]))

QRec == ndJsonDeserialize(IOEnv.TRACE)
VARIABLES qpos, qstat
qvars == <<qpos, qstat>>
Bad(cond, clause) == IF cond THEN {} ELSE {clause}

Fails(r) ==
  IF r.panic THEN {"panic"} ELSE
  Bad(IsPermutation(r), "not_a_permutation")
  \cup Bad(r.raised \/ ~r.reported, "reports_cancelled_but_flag_never_raised")
  \cup (IF ~r.reported /\ IsPermutation(r) THEN Bad(IsSorted(r), "not_sorted_but_reported_complete") ELSE {})

Init == qpos = 1 /\ qstat = [calls |-> 0, fails |-> 0, elements |-> 0, cancelled |-> 0, complete |-> 0]

SortCall ==
  /\ qpos <= Len(QRec)
  /\ LET r == QRec[qpos]  F == Fails(r) IN
     /\ IF F = {} THEN TRUE ELSE PrintT(ToJson([ev |-> "JUDGE", id |-> r.id, viol |-> F]))
     /\ qstat' = [calls |-> qstat.calls + 1, fails |-> qstat.fails + (IF F = {} THEN 0 ELSE 1),
                  elements |-> qstat.elements + r.n,
                  cancelled |-> qstat.cancelled + (IF r.reported THEN 1 ELSE 0),
                  complete |-> qstat.complete + (IF ~r.reported /\ r.n > 1 THEN 1 ELSE 0)]
  /\ qpos' = qpos + 1

Done == qpos > Len(QRec) /\ PrintT(ToJson([ev |-> "DONE", stat |-> qstat])) /\ UNCHANGED qvars
Next == SortCall \/ Done
=============================================================================
