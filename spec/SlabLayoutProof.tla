-------------------------- MODULE SlabLayoutProof --------------------------
(***************************************************************************)
(* C10, the layout arithmetic for ALL window sizes (TLAPS): whenever the   *)
(* guards of MatrixSlab::alloc admit a window (Admissible), the five views *)
(* lie inside the slab, do not overlap and are aligned - for every h, n    *)
(* over the naturals and both character widths.  SlabLayoutMC checks the   *)
(* same statement exhaustively by enumeration; the trace validation binds  *)
(* the extents the real code forms to Views.                               *)
(***************************************************************************)
EXTENDS SlabLayout, TLAPS

LEMMA AlignUpProps ==
  \A x \in Nat, a \in {2, 8} : AlignUp(x, a) % a = 0 /\ AlignUp(x, a) >= x /\ AlignUp(x, a) \in Nat
BY DEF AlignUp

LEMMA ProductNonNeg == \A a \in Nat, b \in Nat : a * b \in Nat
OBVIOUS

THEOREM LayoutSafe ==
  ASSUME NEW h \in Nat, NEW n \in Nat, NEW csz \in {1, 4}, Admissible(h, n, csz)
  PROVE  InBounds(h, n, csz) /\ Disjoint(h, n, csz) /\ Aligned(h, n, csz)
<1>1. n >= 1 /\ h >= n /\ LayoutSize(h, n, csz) <= SlabSize
  BY DEF Admissible
<1>2. h * csz \in Nat /\ h + 1 - n \in Nat /\ (h + 1 - n) * n \in Nat
  BY <1>1, ProductNonNeg
<1>3. /\ RowsOff(h, n, csz) \in Nat /\ RowsOff(h, n, csz) >= h * csz + h /\ RowsOff(h, n, csz) % 2 = 0
  BY <1>2, AlignUpProps DEF RowsOff, BonusOff
<1>4. /\ ScoreOff(h, n, csz) \in Nat /\ ScoreOff(h, n, csz) >= RowsOff(h, n, csz) + 2 * n /\ ScoreOff(h, n, csz) % 8 = 0
  BY <1>3, AlignUpProps DEF ScoreOff
<1>V. Views(h, n, csz) = << <<0, h * csz, csz>>, <<h * csz, h, 1>>, <<RowsOff(h, n, csz), 2 * n, 2>>,
                              <<ScoreOff(h, n, csz), 8 * (h + 1 - n), 8>>,
                              <<ScoreOff(h, n, csz) + 8 * (h + 1 - n), (h + 1 - n) * n, 1>> >>
  BY DEF Views, HayOff, BonusOff, MatrixOff
<1>5. Disjoint(h, n, csz)
  <2> SUFFICES ASSUME NEW k \in 1..4
               PROVE  Views(h, n, csz)[k][1] + Views(h, n, csz)[k][2] <= Views(h, n, csz)[k+1][1]
    BY DEF Disjoint
  <2>1. CASE k = 1  BY <2>1, <1>V, <1>2
  <2>2. CASE k = 2  BY <2>2, <1>V, <1>2, <1>3
  <2>3. CASE k = 3  BY <2>3, <1>V, <1>2, <1>3, <1>4
  <2>4. CASE k = 4  BY <2>4, <1>V, <1>2, <1>4
  <2> QED BY <2>1, <2>2, <2>3, <2>4
<1>C. /\ 0 + h * csz <= SlabSize /\ h * csz + h <= SlabSize /\ RowsOff(h, n, csz) + 2 * n <= SlabSize
      /\ ScoreOff(h, n, csz) + 8 * (h + 1 - n) <= SlabSize
      /\ (ScoreOff(h, n, csz) + 8 * (h + 1 - n)) + (h + 1 - n) * n <= SlabSize
  <2>0. ScoreOff(h, n, csz) + 8 * (h + 1 - n) + (h + 1 - n) * n <= SlabSize
    BY <1>1 DEF LayoutSize, MatrixOff
  <2>1. SlabSize \in Nat
    BY DEF SlabSize, MaxMatrixCells
  <2> QED BY <2>0, <2>1, <1>2, <1>3, <1>4
<1>6. InBounds(h, n, csz)
  <2> SUFFICES ASSUME NEW k \in 1..5
               PROVE  Views(h, n, csz)[k][1] + Views(h, n, csz)[k][2] <= SlabSize
    BY DEF InBounds
  <2>1. CASE k = 1  BY <2>1, <1>V, <1>C
  <2>2. CASE k = 2  BY <2>2, <1>V, <1>C
  <2>3. CASE k = 3  BY <2>3, <1>V, <1>C
  <2>4. CASE k = 4  BY <2>4, <1>V, <1>C
  <2>5. CASE k = 5  BY <2>5, <1>V, <1>C
  <2> QED BY <2>1, <2>2, <2>3, <2>4, <2>5
<1>7. Aligned(h, n, csz)
  <2> SUFFICES ASSUME NEW k \in 1..5
               PROVE  Views(h, n, csz)[k][1] % Views(h, n, csz)[k][3] = 0
    BY DEF Aligned
  <2>1. CASE k = 1  BY <2>1, <1>V
  <2>2. CASE k = 2  BY <2>2, <1>V, <1>2
  <2>3. CASE k = 3  BY <2>3, <1>V, <1>3
  <2>4. CASE k = 4  BY <2>4, <1>V, <1>4
  <2>5. CASE k = 5
    <3>1. ScoreOff(h, n, csz) + 8 * (h + 1 - n) \in Nat  BY <1>2, <1>4
    <3> QED BY <2>5, <1>V, <3>1
  <2> QED BY <2>1, <2>2, <2>3, <2>4, <2>5
<1> QED
  BY <1>5, <1>6, <1>7
=============================================================================
