CONSTANT NeedleLens = {1, 2, 3, 4, 7, 10, 33, 50, 100, 319, 320, 321, 1000, 2047, 2048}
INIT Init
NEXT Next
INVARIANTS LayoutSafeAscii LayoutSafeUnicode WidthMonotone
CHECK_DEADLOCK FALSE
