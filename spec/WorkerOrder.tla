---------------------------- MODULE WorkerOrder ----------------------------
(***************************************************************************)
(* C18, last sentence: "because the worker's comparison is a total order,  *)
(* the resulting match order is identical for every number of worker       *)
(* threads".  One record = one complete run of the real worker (pattern,   *)
(* item set, thread count) with the matches it published; the documented   *)
(* order (score descending, then total length ascending, then index        *)
(* ascending; ParSort!Less without placeholders) is total and strict on    *)
(* distinct indices, so there is exactly one admissible result: the record *)
(* is accepted iff it lists exactly the matching items, each with its      *)
(* score, strictly increasing under that order.  Every thread count        *)
(* therefore has to produce the same sequence.                             *)
(* items[k] = <<length, score or -1>> of the item with index k-1 (scores   *)
(* from nucleo_matcher::pattern::Pattern::score, not from the worker).     *)
(***************************************************************************)
EXTENDS Integers, Sequences, FiniteSets, TLC, Json, IOUtils

ORec == ndJsonDeserialize(IOEnv.TRACE)
VARIABLES opos, ostat
ovars == <<opos, ostat>>
Bad(cond, clause) == IF cond THEN {} ELSE {clause}

\* strict order on <<idx, score>> pairs of record r; the empty pattern does not sort at all: every item matches
\* with score 0 and the items stay in index (injection) order
Before(r, a, b) ==
  IF r.pattern = "" THEN a[1] < b[1]
  ELSE IF a[2] # b[2] THEN a[2] > b[2]
  ELSE LET la == r.items[a[1] + 1][1]  lb == r.items[b[1] + 1][1] IN
       IF la # lb THEN la < lb ELSE a[1] < b[1]

Fails(r) ==
  LET m == r.matches  k == Len(m)
      valid == \A j \in 1..k : m[j][1] >= 0 /\ m[j][1] < r.n
      expected == Cardinality({ i \in 1..r.n : r.items[i][2] >= 0 }) IN
  IF r.panic THEN {"panic"}
  ELSE IF r.stuck THEN {"never_finished"}
  ELSE Bad(r.count = r.n, "item_count")
       \cup Bad(valid, "placeholder_or_foreign_index_published")
       \cup (IF ~valid THEN {}
             ELSE Bad(\A j \in 1..k : m[j][2] = r.items[m[j][1] + 1][2], "score_differs_from_pattern_score")
                  \cup Bad(\A j \in 1..(k - 1) : Before(r, m[j], m[j + 1]), "not_in_the_documented_total_order")
                  \cup Bad(k = expected, "matching_items_missing_or_repeated"))

Init == opos = 1 /\ ostat = [runs |-> 0, fails |-> 0, matches |-> 0, ties |-> 0]

WorkerRun ==
  /\ opos <= Len(ORec)
  /\ LET r == ORec[opos]  F == Fails(r) IN
     /\ IF F = {} THEN TRUE ELSE PrintT(ToJson([ev |-> "JUDGE", id |-> r.id, viol |-> F]))
     /\ ostat' = [runs |-> ostat.runs + 1, fails |-> ostat.fails + (IF F = {} THEN 0 ELSE 1),
                  matches |-> ostat.matches + Len(r.matches),
                  ties |-> ostat.ties + Cardinality({ j \in 1..(Len(r.matches) - 1) : r.matches[j][2] = r.matches[j + 1][2] })]
  /\ opos' = opos + 1

Done == opos > Len(ORec) /\ PrintT(ToJson([ev |-> "DONE", stat |-> ostat])) /\ UNCHANGED ovars
Next == WorkerRun \/ Done
=============================================================================
