---------------------------- MODULE MatcherTrace ----------------------------
(***************************************************************************)
(* Trace validation of the real `Matcher` (impl -> spec).                  *)
(*                                                                         *)
(* Each line of TRACE is one call record written by `nvh matcher-trace`:   *)
(* the arguments (haystack, needle, configuration, prior content of the    *)
(* indices vector) and, per prefer_prefix value and representation         *)
(* combination, the outcome of all 12 entry points on a FRESH matcher      *)
(* (`blocks`), plus every outcome of a long-lived matcher that differed    *)
(* from its fresh twin (`hist`).  An outcome is <<score, after>> /         *)
(* <<score>> with score -1 = None and -2 = panic.                          *)
(*                                                                         *)
(* The action MatcherCall consumes one record and evaluates the            *)
(* postconditions of C01-C05 and C10 on it; failing clauses are printed    *)
(* as one JSON line per record: {ev:"JUDGE", id, viol:[[property, clause,   *)
(* block]..], known:[[property, finding id]..]}.                            *)
(* The environment variables C01..C05, C10 ("1"/"0") select the clauses.   *)
(***************************************************************************)
EXTENDS KnownFindings

Rec == ndJsonDeserialize(IOEnv.TRACE)

W01 == IOEnv.C01 = "1"
W02 == IOEnv.C02 = "1"
W03 == IOEnv.C03 = "1"
W04 == IOEnv.C04 = "1"
W05 == IOEnv.C05 = "1"
W10 == IOEnv.C10 = "1"
\* largest |haystack| * |needle| for which the full-matrix recurrence is evaluated (C04)
NaiveMax == atoi(IOEnv.NAIVEMAX)
\* of the seeded random records (family R) only every NaiveStride-th one is confronted with the full recurrence
\* (the thorough tier has 20 times more of them; the other families are always confronted)
NaiveStride == atoi(IOEnv.NAIVESTRIDE)

\* NOTE: state variables must not share a name with any bound identifier of the library modules
\* (a variable called `i` made TLC treat Chars!Row as state-dependent and re-evaluate it per character).
VARIABLES tpos, tstat
vars == <<tpos, tstat>>

Score(o) == o[1]
After(o) == o[2]

PrefixIntact(pre, o) == Len(After(o)) >= Len(pre) /\ SubSeq(After(o), 1, Len(pre)) = pre
\* appended indices, converted to 1-based positions
New(pre, o) == [k \in 1..(Len(After(o)) - Len(pre)) |-> After(o)[Len(pre) + k] + 1]

Run(a, n) == [k \in 1..n |-> a + k - 1]

Bad(cond, prop, clause, blk) == IF cond THEN {} ELSE {<<prop, clause, blk>>}

(***************************************************************************)
(* Postconditions of one block (12 fresh calls under one prefer_prefix     *)
(* value and one representation combination).                              *)
(***************************************************************************)
BlockFails(r, N, K, b, blk) ==
  LET needle == r.needle
      n == Len(needle)
      pre == r.pre
      o == b.outs
      pp == b.pp
      nopanic == \A f \in 1..12 : Score(o[f]) # -2
      sub == IsSubseq(needle, N)
      small == Len(N) <= 12 /\ n <= 4 /\ n >= 1
      \* generic clauses for an indices/match pair (fi, fi+1) whose success is `should`
      \* and whose alignment (if any constraint) is `want` (<<>> = unconstrained)
      Pair(fi, name, should, want, contiguous, pDecide) ==
        LET oi == o[fi]  om == o[fi + 1]  new == New(pre, oi) IN
        IF Score(oi) = -2 \/ Score(om) = -2 THEN {}   \* reported once by C10
        ELSE
          (IF ~((pDecide = "C01" /\ W01) \/ (pDecide = "C05" /\ W05)) THEN {}
           ELSE Bad((Score(oi) >= 0) = should, pDecide, name \o "_indices_decision", blk)
                \cup Bad((Score(om) >= 0) = should, pDecide, name \o "_match_decision", blk)
                \cup (IF pDecide = "C05" /\ want # <<>> /\ Score(oi) >= 0 /\ PrefixIntact(pre, oi)
                      THEN Bad(new = want, "C05", name \o "_position", blk) ELSE {}))
          \cup
          (IF ~W02 THEN {}
           ELSE IF Score(oi) >= 0
                THEN Bad(PrefixIntact(pre, oi), "C02", name \o "_prefix_kept", blk)
                     \cup (IF PrefixIntact(pre, oi)
                           THEN Bad(ValidWitness(N, needle, new), "C02", name \o "_witness", blk)
                                \cup (IF contiguous THEN Bad(Contiguous(new), "C02", name \o "_contiguous", blk) ELSE {})
                                \cup (IF want # <<>> /\ name # "substring" /\ ValidWitness(N, needle, new)
                                      THEN Bad(new = want, "C02", name \o "_anchor", blk) ELSE {})
                           ELSE {})
                ELSE Bad(After(oi) = pre, "C02", name \o "_fail_appends", blk))
          \cup
          (IF ~W03 \/ pp THEN {}
           ELSE Bad(Score(om) = Score(oi), "C03", name \o "_twin", blk)
                \cup (IF Score(oi) >= 0 /\ PrefixIntact(pre, oi) /\ ValidWitness(N, needle, new)
                      THEN Bad(Score(oi) = Clamp16(AlignScore(K, new, r.paths)), "C03", name \o "_score", blk)
                      ELSE {}))
      sp == SubstringPos(N, K, needle, r.paths)
      pf == PrefixPos(N, r.hay, needle)
      po == PostfixPos(N, r.hay, needle)
      ex == ExactPos(N, r.hay, needle)
  IN
  (IF W10 THEN Bad(nopanic, "C10", "panic", blk) ELSE {})
  \cup
  (IF n = 0
   THEN \* the empty needle matches everything with score 0 and appends nothing
        IF ~(W01 \/ W02 \/ W05) THEN {}
        ELSE UNION { Bad(Score(o[f]) \in {0, -2}, IF f <= 4 THEN "C01" ELSE "C05", "empty_needle", blk) : f \in 1..12 }
             \cup UNION { Bad(Score(o[f]) = -2 \/ After(o[f]) = pre, "C02", "empty_needle_appends", blk) : f \in {1, 3, 5, 7, 9, 11} }
   ELSE
     Pair(1, "fuzzy", sub, <<>>, FALSE, "C01")
     \cup Pair(3, "greedy", sub, <<>>, FALSE, "C01")
     \cup Pair(5, "substring", sp > 0, IF sp > 0 THEN Run(sp, n) ELSE <<>>, TRUE, "C05")
     \cup Pair(7, "prefix", pf > 0, IF pf > 0 THEN Run(pf, n) ELSE <<>>, TRUE, "C05")
     \cup Pair(9, "postfix", po > 0, IF po > 0 THEN Run(po, n) ELSE <<>>, TRUE, "C05")
     \cup Pair(11, "exact", ex > 0, IF ex > 0 THEN Run(ex, n) ELSE <<>>, TRUE, "C05")
     \cup
     (IF ~W04 \/ pp \/ Score(o[1]) = -2 THEN {}
      ELSE (IF small
            THEN LET best == BestScore(N, K, needle, r.paths) IN
                 Bad(Score(o[1]) <= best, "C04", "above_optimum", blk)
                 \cup (IF n = 1 THEN Bad(Score(o[1]) = best, "C04", "one_char_not_best", blk) ELSE {})
            ELSE {})
           \cup (IF Len(N) * n <= NaiveMax /\ (r.fam # "R" \/ r.id % NaiveStride = 0) /\ Admissible(Len(N), n, IF b.rh = "A" THEN 1 ELSE 4)
                 THEN Bad(NaiveRec(N, K, needle, r.paths) <= Score(o[1]), "C04", "below_recurrence", blk)
                 ELSE {})))

\* the block a "same" reference resolves to
Resolve(r, k) == IF r.blocks[k].same = 0 THEN r.blocks[k] ELSE r.blocks[r.blocks[k].same]

RecordFails(r) ==
  LET N == NormSeq(r.hay, r.ic, r.nz)
      K == ClassSeq(r.hay, r.paths)
      nb == Len(r.blocks)
      half == nb \div 2 IN
  UNION { IF r.blocks[k].same = 0 THEN BlockFails(r, N, K, r.blocks[k], k) ELSE {} : k \in 1..nb }
  \cup
  \* prefer_prefix never lowers the optimal score and raises it by at most the prefix bonus
  (IF ~W04 THEN {}
   ELSE UNION { LET off == Score(Resolve(r, k).outs[1])
                    on == Score(Resolve(r, k + half).outs[1]) IN
                IF off = -2 \/ on = -2 THEN {}
                ELSE Bad(((off >= 0) = (on >= 0)) /\ (off >= 0 => (off <= on /\ on <= off + MaxPrefixBonus)),
                         "C04", "prefer_prefix_bounds", k + half) : k \in 1..half })
  \cup
  \* every view formed into the scratch allocation lies inside it, views do not overlap and are aligned
  (IF ~W10 THEN {}
   ELSE UNION { LET v == r.slab[k].views  al == <<r.slab[k].csz, 1, 2, 8, 1>> IN
                Bad(\A j \in 1..5 : v[j][1] + v[j][2] <= r.slab[k].size, "C10", "slab_view_out_of_bounds", k)
                \cup Bad(\A j \in 1..4 : v[j][1] + v[j][2] <= v[j+1][1], "C10", "slab_views_overlap", k)
                \cup Bad(\A j \in 1..5 : v[j][1] % al[j] = 0, "C10", "slab_view_misaligned", k)
                \cup Bad(r.slab[k].size = SlabSize /\ \A j \in 1..5 : <<v[j][1], v[j][2]>> = <<Views(r.slab[k].h, r.slab[k].n, r.slab[k].csz)[j][1], Views(r.slab[k].h, r.slab[k].n, r.slab[k].csz)[j][2]>>,
                          "DRIFT", "slab_layout_differs_from_model", k) : k \in 1..Len(r.slab) })
  \cup
  \* history independence: a used matcher answers like a fresh one
  (IF ~W10 THEN {}
   ELSE { <<"C10", "history_dependent", r.hist[h].b>> : h \in 1..Len(r.hist) })

Init == tpos = 1 /\ tstat = [records |-> 0, blocks |-> 0, positive |-> 0, fails |-> 0, known |-> 0]

MatcherCall ==
  /\ tpos <= Len(Rec)
  /\ LET r == Rec[tpos]
         F == RecordFails(r)
         V == {x \in F : KnownId(r, x) = ""}
         KF == { <<x[1], KnownId(r, x)>> : x \in F \ V } IN
     \* one output line per record that has failing clauses (printing is the expensive part)
     /\ IF F = {} THEN TRUE
        ELSE PrintT(ToJson([ev |-> "JUDGE", id |-> r.id, viol |-> V, known |-> KF]))
     /\ tstat' = [records |-> tstat.records + 1,
               blocks |-> tstat.blocks + Cardinality({k \in 1..Len(r.blocks) : r.blocks[k].same = 0}),
               positive |-> tstat.positive + (IF Score(Resolve(r, 1).outs[1]) > 0 THEN 1 ELSE 0),
               fails |-> tstat.fails + Cardinality(V),
               known |-> tstat.known + Cardinality(KF)]
  /\ tpos' = tpos + 1

Done == tpos > Len(Rec) /\ PrintT(ToJson([ev |-> "DONE", stat |-> tstat])) /\ UNCHANGED vars

Next == MatcherCall \/ Done
Spec == Init /\ [][Next]_vars
=============================================================================
