----------------------------- MODULE CharsCheck -----------------------------
(***************************************************************************)
(* C16: character normalisation is a coherent, idempotent projection.      *)
(*                                                                         *)
(* The domain is finite and is decided completely: DUMP is the full graph  *)
(* of chars::normalize, chars::to_lower_case and chars::is_upper_case over *)
(* all 1,112,064 Unicode scalar values as dumped from the real crate       *)
(* (identity elsewhere is measured by the dumper and reported in the END   *)
(* event), together with every observable disagreement between the         *)
(* matcher's internal normalisation routines ("D" events, from probe       *)
(* matches) and every character whose normal form is itself not normal     *)
(* ("X").  REF is reference Unicode data (simple case folding, NFKD base   *)
(* letters of the documented blocks, assigned ranges) derived from         *)
(* Python's unicodedata.  Each dump entry is consumed by one action whose  *)
(* postcondition is the property; the closing action checks completeness   *)
(* (every reference entry present in the crate's maps).                    *)
(***************************************************************************)
EXTENDS Integers, Sequences, FiniteSets, TLC, Json, IOUtils

Dump == ndJsonDeserialize(IOEnv.DUMP)
Ref == ndJsonDeserialize(IOEnv.REF)

Sel(S, kind) == {k \in DOMAIN S : S[k].ev = kind}

\* the crate's maps as functions over their non-identity domains
NormDom == {Dump[k].c : k \in Sel(Dump, "N")}
FoldDom == {Dump[k].c : k \in Sel(Dump, "F")}
UpperSet == {Dump[k].c : k \in Sel(Dump, "U")}
NormTab == TLCEval([c \in NormDom |-> Dump[CHOOSE k \in Sel(Dump, "N") : Dump[k].c = c].to])
FoldTab == TLCEval([c \in FoldDom |-> Dump[CHOOSE k \in Sel(Dump, "F") : Dump[k].c = c].to])
LatinNorm(c) == IF c \in NormDom THEN NormTab[c] ELSE c
Fold(c) == IF c \in FoldDom THEN FoldTab[c] ELSE c

\* reference data
RefFoldDom == {Ref[k].c : k \in Sel(Ref, "SF")}
RefFoldTab == TLCEval([c \in RefFoldDom |-> Ref[CHOOSE k \in Sel(Ref, "SF") : Ref[k].c = c].to])
RefDecompDom == {Ref[k].c : k \in Sel(Ref, "DC")}
RefDecompTab == TLCEval([c \in RefDecompDom |-> Ref[CHOOSE k \in Sel(Ref, "DC") : Ref[k].c = c].base])
AssignedRanges == {<<Ref[k].lo, Ref[k].hi>> : k \in Sel(Ref, "AS")}
Assigned(c) == \E r \in AssignedRanges : r[1] <= c /\ c <= r[2]

\* Latin-1 Supplement, Latin Extended-A, Latin Extended-B, Latin Extended Additional,
\* Superscripts and Subscripts (the blocks named in the documentation of chars::normalize)
InDocumentedBlocks(c) ==
  \/ c >= 160 /\ c <= 591        \* U+00A0 .. U+024F
  \/ c >= 7680 /\ c <= 7935      \* U+1E00 .. U+1EFF
  \/ c >= 8304 /\ c <= 8351      \* U+2070 .. U+209F

VARIABLES cpos, cstat
cvars == <<cpos, cstat>>

\* ---- known findings (see known_findings.json) -------------------------------------------------
\* KF-C16-ipa-extensions: U+0250..U+029F (IPA Extensions) are changed by normalize although the block is not
\* among the documented ones (the table LATIN_1AB runs to U+029F and the crate's own test pins U+029F -> 'L').
KfIpa(e, clause) == clause = "norm_outside_documented_blocks" /\ e.c >= 592 /\ e.c <= 671
\* KF-C16-composite-not-idempotent: 23 characters whose case folding (after normalisation) is itself changed
\* by normalisation, so Norm(Norm(c)) # Norm(c) when both maps are configured.
KfCompositeSet == {404, 408, 502, 7838, 8491, 11362, 11364, 11373, 11374, 11375, 11376, 11390, 11391,
                   42893, 42922, 42923, 42924, 42925, 42926, 42928, 42929, 42930, 42949}
KfComposite(e, clause) == clause = "composite_not_idempotent" /\ e.c \in KfCompositeSet /\ e.ic /\ e.nz
KnownId(e, clause) ==
  IF KfIpa(e, clause) THEN "KF-C16-ipa-extensions"
  ELSE IF KfComposite(e, clause) THEN "KF-C16-composite-not-idempotent"
  ELSE ""

Bad(cond, clause) == IF cond THEN {} ELSE {clause}

EntryFails(e) ==
  IF e.ev = "N" THEN
       Bad(InDocumentedBlocks(e.c), "norm_outside_documented_blocks")
       \cup Bad(e.c >= 128, "norm_changes_ascii")
       \cup Bad(LatinNorm(e.to) = e.to, "norm_not_idempotent")
       \cup (IF e.c \in RefDecompDom THEN Bad(e.to = RefDecompTab[e.c], "norm_not_decomposition_base") ELSE {})
  ELSE IF e.ev = "F" THEN
       Bad(Fold(e.to) = e.to, "fold_not_idempotent")
       \cup Bad(e.c >= 128 \/ (e.c >= 65 /\ e.c <= 90 /\ e.to = e.c + 32), "fold_changes_ascii")
       \cup (IF Assigned(e.c)
             THEN Bad(e.c \in RefFoldDom /\ RefFoldTab[e.c] = e.to, "fold_differs_from_unicode_simple_folding")
             ELSE {})
       \cup Bad(e.c \in UpperSet, "folding_char_not_upper")
  ELSE IF e.ev = "U" THEN Bad(e.c \in FoldDom, "upper_without_folding")
  ELSE IF e.ev = "D" THEN {"internal_routines_disagree"}
  ELSE IF e.ev = "X" THEN {"composite_not_idempotent"}
  ELSE IF e.ev = "END" THEN
       Bad(e.scanned = 1112064, "not_all_scalars_scanned")
       \* completeness: every reference folding / decomposition is realised by the crate's maps
       \cup Bad(\A c \in RefFoldDom : Fold(c) = RefFoldTab[c], "missing_simple_folding")
       \cup Bad(\A c \in RefDecompDom : LatinNorm(c) = RefDecompTab[c], "decomposable_char_not_normalised")
       \cup Bad(\A c \in 0..127 : LatinNorm(c) = c /\ (Fold(c) = c \/ (c >= 65 /\ c <= 90)), "ascii_not_fixed")
  ELSE {"unknown_event"}

Init == cpos = 1 /\ cstat = [entries |-> 0, fails |-> 0, known |-> 0, unchecked |-> 0]

Consume ==
  /\ cpos <= Len(Dump)
  /\ LET e == Dump[cpos]
         F == EntryFails(e)
         V == {x \in F : KnownId(e, x) = ""}
         KF == {KnownId(e, x) : x \in F \ V} IN
     /\ IF F = {} THEN TRUE ELSE PrintT(ToJson([ev |-> "JUDGE", entry |-> e, viol |-> V, known |-> KF]))
     /\ cstat' = [entries |-> cstat.entries + 1, fails |-> cstat.fails + Cardinality(V),
                  known |-> cstat.known + Cardinality(KF),
                  unchecked |-> cstat.unchecked + (IF e.ev = "F" /\ ~Assigned(e.c) THEN 1 ELSE 0)]
  /\ cpos' = cpos + 1

Done == cpos > Len(Dump) /\ PrintT(ToJson([ev |-> "DONE", stat |-> cstat])) /\ UNCHANGED cvars

Next == Consume \/ Done
=============================================================================
