SPECIFICATION Spec
CONSTANTS Threads = {1, 2}
          NB = 3
          SKIPLOG = 1
          Progs <- ProgsSmall
          Ords <- OrdsFromCode
INVARIANTS NoBad ActiveWritten DistinctIndices RaceFree DroppedOnce NothingLeaked NoDropWhileAlive
CHECK_DEADLOCK FALSE
