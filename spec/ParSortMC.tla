----------------------------- MODULE ParSortMC -----------------------------
(***************************************************************************)
(* Lemma: under the worker's comparison a sorted permutation is unique up  *)
(* to the order of (indistinguishable) placeholders, for every array of    *)
(* length <= LQ over scores {0,1}, lengths {0,1} and placeholders.  Hence  *)
(* "sorted permutation" determines the match order and the thread count    *)
(* cannot influence it.  Also: Less is a strict weak order.                *)
(***************************************************************************)
EXTENDS Integers, Sequences, FiniteSets, TLC

CONSTANT LQ
VARIABLE arr            \* sequence of <<score, len, idx>>, idx = position or -1
Less(a, b) ==
  IF a[1] # b[1] THEN a[1] > b[1]
  ELSE IF a[3] < 0 THEN FALSE
  ELSE IF b[3] < 0 THEN TRUE
  ELSE IF a[2] = b[2] THEN a[3] < b[3]
  ELSE a[2] < b[2]

Init == arr = <<>>
Grow(s, l, ph) == Len(arr) < LQ /\ arr' = Append(arr, IF ph THEN <<0, 0, -1>> ELSE <<s, l, Len(arr)>>)
Next == \E s \in {0, 1}, l \in {0, 1}, ph \in BOOLEAN : Grow(s, l, ph)

Perms == {f \in [1..Len(arr) -> 1..Len(arr)] : \A x, y \in 1..Len(arr) : x # y => f[x] # f[y]}
SortedPerm(f) == \A k \in 1..Len(arr) - 1 : ~Less(arr[f[k + 1]], arr[f[k]])
Image(f) == [k \in 1..Len(arr) |-> arr[f[k]]]

InvUniqueSortedOrder == Cardinality({Image(f) : f \in {g \in Perms : SortedPerm(g)}}) = 1
InvIrreflexive == \A k \in 1..Len(arr) : ~Less(arr[k], arr[k])
InvAsymmetric == \A x, y \in 1..Len(arr) : Less(arr[x], arr[y]) => ~Less(arr[y], arr[x])
InvTransitive == \A x, y, z \in 1..Len(arr) : (Less(arr[x], arr[y]) /\ Less(arr[y], arr[z])) => Less(arr[x], arr[z])
InvIncomparabilityTransitive ==
  \A x, y, z \in 1..Len(arr) :
     (~Less(arr[x], arr[y]) /\ ~Less(arr[y], arr[x]) /\ ~Less(arr[y], arr[z]) /\ ~Less(arr[z], arr[y]))
        => (~Less(arr[x], arr[z]) /\ ~Less(arr[z], arr[x]))
=============================================================================
