------------------------- MODULE LifecycleItemsGen -------------------------
(***************************************************************************)
(* Model-based test generation (spec -> impl) from LifecycleItems: one     *)
(* script per transition of the exhaustively explored model (`hist` is     *)
(* hidden from the fingerprint by the VIEW).  Every step carries the       *)
(* model's total of destroyed items after it; the harness only uses it to  *)
(* know how long to be patient before it reads the counters (destruction   *)
(* by a pool thread's closure tail may lag by microseconds) - the judge is *)
(* LifecycleItemsTrace, which recomputes everything from the model.        *)
(***************************************************************************)
EXTENDS LifecycleItems, Json

VARIABLE hist
GInit == XInit /\ hist = <<>>

\* keep = 1: a run that is still held must stay held during this step (a tick on a fresh state that times out)
Emit(op, arg) ==
  /\ hist' = Append(hist, [op |-> op, arg |-> arg, exp |-> DestroyedTotal', keep |-> IF op = "tick" /\ state = "Fresh" THEN 1 ELSE 0])
  /\ PrintT(ToJson([ev |-> "SCRIPT", ops |-> hist']))

GNext == \/ XNew /\ Emit("new", 0)
         \/ XUpdateConfig /\ Emit("config", 0)
         \/ XDropMatcher /\ Emit("dropm", 0)
         \/ \E h \in Live : (XClone(h) /\ Emit("clone", h)) \/ (XDrop(h) /\ Emit("drop", h)) \/ (XPush(h) /\ Emit("push", h))
         \/ \E c \in BOOLEAN : XRestart(c) /\ Emit("restart", IF c THEN 1 ELSE 0)
         \/ \E c \in BOOLEAN : XTick(c) /\ Emit("tick", IF c THEN 1 ELSE 0)

GView == xvars
=============================================================================
