------------------------ MODULE LifecycleItemsTrace ------------------------
(***************************************************************************)
(* Validates the replays of the LifecycleItemsGen scripts on the real      *)
(* Nucleo: every recorded step must be the corresponding LifecycleItems    *)
(* action; after it active_injectors() (while the matcher exists) must be  *)
(* the number of live handles of the current stream, and for every stream  *)
(* the number of its items destroyed so far must be Destroyed(s) of the    *)
(* successor state - none while the stream is reachable (C11 "never        *)
(* earlier"), all of them once it is not (C11 "exactly once ... nothing    *)
(* leaked"; more than items[s] would be a double drop).                    *)
(***************************************************************************)
EXTENDS LifecycleItems, Json, IOUtils

LRec == ndJsonDeserialize(IOEnv.TRACE)

VARIABLES lpos, lstep, lstat
tvars == <<xvars, lpos, lstep, lstat>>

TInit == XInit /\ lpos = 1 /\ lstep = 1 /\ lstat = [scripts |-> 0, steps |-> 0, fails |-> 0]

Rec == LRec[lpos]
Op == Rec.steps[lstep]

ModelStep ==
  \/ Op.op = "new" /\ XNew
  \/ Op.op = "clone" /\ XClone(Op.arg)
  \/ Op.op = "drop" /\ XDrop(Op.arg)
  \/ Op.op = "push" /\ XPush(Op.arg)
  \/ Op.op = "config" /\ XUpdateConfig
  \/ Op.op = "dropm" /\ XDropMatcher
  \/ Op.op = "restart" /\ XRestart(Op.arg = 1)
  \/ Op.op = "tick" /\ XTick(Op.arg = 1)

Judge(ok, clause, observed, expected) ==
  IF ok THEN TRUE ELSE PrintT(ToJson([ev |-> "JUDGE", id |-> Rec.id, step |-> lstep, viol |-> {clause}, observed |-> observed, expected |-> expected]))

ReplayStep ==
  /\ lpos <= Len(LRec) /\ lstep <= Len(Rec.steps)
  /\ ModelStep
  /\ LET okA == alive' => Op.obs = ActiveTruth'
         early == \E s \in StreamIds : Op.drops[s + 1] > 0 /\ Reachable(s)'
         twice == \E s \in StreamIds : Op.drops[s + 1] > items'[s]
         late == \E s \in StreamIds : ~Reachable(s)' /\ Op.drops[s + 1] < items'[s]
         want == [s \in StreamIds |-> Destroyed(s)'] IN
     /\ Judge(okA, "active_injectors_differs_from_model", Op.obs, ActiveTruth')
     /\ Judge(~early, "item_destroyed_while_its_stream_is_reachable", Op.drops, want)
     /\ Judge(~twice, "item_destroyed_twice", Op.drops, want)
     /\ Judge(~late, "items_of_unreachable_stream_not_destroyed", Op.drops, want)
     /\ lstat' = [lstat EXCEPT !.steps = @ + 1, !.fails = @ + (IF okA /\ ~early /\ ~twice /\ ~late THEN 0 ELSE 1)]
  /\ lstep' = lstep + 1 /\ lpos' = lpos

NextScript ==
  /\ lpos <= Len(LRec) /\ lstep > Len(Rec.steps)
  /\ LET ok == Rec.created = Rec.dropped IN
     /\ Judge(ok, "items_not_dropped_exactly_once_when_unreachable", Rec.dropped, Rec.created)
     /\ lstat' = [lstat EXCEPT !.scripts = @ + 1, !.fails = @ + (IF ok THEN 0 ELSE 1)]
  /\ lpos' = lpos + 1 /\ lstep' = 1
  /\ cur' = 0 /\ wstream' = 0 /\ sstream' = 0 /\ state' = "Init" /\ handles' = {} /\ nexth' = 1 /\ pending' = FALSE /\ pendcur' = FALSE
  /\ alive' = TRUE /\ items' = [s \in StreamIds |-> 0] /\ pushes' = 0 /\ runHeld' = FALSE

TDone == lpos > Len(LRec) /\ PrintT(ToJson([ev |-> "DONE", stat |-> lstat])) /\ UNCHANGED tvars
TNext == ReplayStep \/ NextScript \/ TDone
=============================================================================
