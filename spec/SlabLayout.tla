----------------------------- MODULE SlabLayout -----------------------------
(***************************************************************************)
(* The scratch-memory layout of the optimal matcher as integer arithmetic. *)
(*                                                                         *)
(* One slab of SlabSize bytes is carved, per call, into five views for a   *)
(* match window of h haystack characters (csz bytes each: 1 for the ASCII  *)
(* representation, 4 for code points) and n needle characters:             *)
(*    haystack copy  h * csz      bonus  h * 1       row offsets  n * 2    *)
(*    score row  (h+1-n) * 8      back-pointer matrix  (h+1-n) * n * 1     *)
(* laid out in this order, each aligned to its element.  The guards of the *)
(* documented limits ("haystack x needle around 100 KiB cells, needle      *)
(* around 2048, haystack around 65535") decide between the matrix          *)
(* algorithm and the greedy fallback.                                      *)
(***************************************************************************)
EXTENDS Integers

MaxMatrixCells == 100 * 1024
MaxNeedle == 2048
MaxHaystackU16 == 65535
\* size_of::<MatcherData>() = [char;2048] + [u8;2048] + [u16;2048] + [ScoreCell;2048] + [u8;102400]
SlabSize == 4 * 2048 + 2048 + 2 * 2048 + 8 * 2048 + MaxMatrixCells

AlignUp(x, a) == ((x + a - 1) \div a) * a

HayOff(h, n, csz) == 0
BonusOff(h, n, csz) == h * csz
RowsOff(h, n, csz) == AlignUp(BonusOff(h, n, csz) + h, 2)
ScoreOff(h, n, csz) == AlignUp(RowsOff(h, n, csz) + 2 * n, 8)
MatrixOff(h, n, csz) == ScoreOff(h, n, csz) + 8 * (h + 1 - n)
LayoutSize(h, n, csz) == MatrixOff(h, n, csz) + (h + 1 - n) * n

\* the five views as <<offset, length in bytes, alignment>>, as the code SHOULD form them
Views(h, n, csz) ==
  << <<HayOff(h, n, csz), h * csz, csz>>,
     <<BonusOff(h, n, csz), h, 1>>,
     <<RowsOff(h, n, csz), 2 * n, 2>>,
     <<ScoreOff(h, n, csz), 8 * (h + 1 - n), 8>>,
     <<MatrixOff(h, n, csz), (h + 1 - n) * n, 1>> >>

\* the matrix algorithm is used for a window iff all guards pass
Admissible(h, n, csz) ==
  /\ n >= 1 /\ h >= n
  /\ h * n <= MaxMatrixCells
  /\ h <= MaxHaystackU16
  /\ n <= MaxNeedle
  /\ LayoutSize(h, n, csz) <= SlabSize

\* Invariants of the layout (checked for every admissible size by SlabLayoutMC)
InBounds(h, n, csz) == \A k \in 1..5 : Views(h, n, csz)[k][1] + Views(h, n, csz)[k][2] <= SlabSize
Disjoint(h, n, csz) ==
  \A k \in 1..4 : Views(h, n, csz)[k][1] + Views(h, n, csz)[k][2] <= Views(h, n, csz)[k+1][1]
Aligned(h, n, csz) == \A k \in 1..5 : Views(h, n, csz)[k][1] % Views(h, n, csz)[k][3] = 0
=============================================================================
