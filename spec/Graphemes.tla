----------------------------- MODULE Graphemes -----------------------------
(***************************************************************************)
(* Extended grapheme cluster boundaries (UAX #29, rules GB3-GB13, GB9c,    *)
(* GB999) as a left fold over a sequence of code points with a small       *)
(* state.  Written from the rules, independent of the unicode-segmentation *)
(* crate the implementation uses.  Grapheme_Cluster_Break / InCB classes   *)
(* are hand-assigned for the segmentation-relevant members of the          *)
(* universe (identical in Unicode 15.1 and 16.0); every other code point   *)
(* of the universe used by the C17 generators is "Other".                  *)
(***************************************************************************)
EXTENDS Integers, Sequences, FiniteSets

GcbCR == {13}
GcbLF == {10}
GcbControl == {1, 9, 11, 12, 8232}                 \* U+0001, TAB, VT, FF, LINE SEPARATOR
GcbExtend == {769, 776, 837, 65039, 127995, 2364, 2381}   \* U+0301 U+0308 U+0345 U+FE0F U+1F3FB U+093C U+094D
GcbZWJ == {8205}
GcbSpacingMark == {2307, 3635}                     \* U+0903, U+0E33
GcbPrepend == {1536, 3406}                         \* U+0600, U+0D4E
GcbL == {4352}
GcbV == {4449}
GcbT == {4520}
GcbLV == {44032}
GcbLVT == {44033}
GcbRI == {127465, 127466}                          \* U+1F1E9 U+1F1EA
ExtPict == {128512, 10084, 128104, 128105}         \* U+1F600 U+2764 U+1F468 U+1F469
InCBConsonant == {2325, 2359}                      \* U+0915 U+0937
InCBLinker == {2381}                               \* U+094D
InCBExtend == (GcbExtend \cup GcbZWJ) \ InCBLinker

Gcb(c) ==
  IF c \in GcbCR THEN "CR" ELSE IF c \in GcbLF THEN "LF" ELSE IF c \in GcbControl THEN "Control"
  ELSE IF c \in GcbExtend THEN "Extend" ELSE IF c \in GcbZWJ THEN "ZWJ"
  ELSE IF c \in GcbSpacingMark THEN "SpacingMark" ELSE IF c \in GcbPrepend THEN "Prepend"
  ELSE IF c \in GcbL THEN "L" ELSE IF c \in GcbV THEN "V" ELSE IF c \in GcbT THEN "T"
  ELSE IF c \in GcbLV THEN "LV" ELSE IF c \in GcbLVT THEN "LVT" ELSE IF c \in GcbRI THEN "RI"
  ELSE "Other"

\* state carried along the text: prev = previous code point (0 at the start), ri = number of regional
\* indicators at the end of the text so far, emo = 0 / 1 (ExtPict Extend*) / 2 (ExtPict Extend* ZWJ),
\* conj = 0 / 1 (Consonant Extend*) / 2 (Consonant [Extend Linker]* with a Linker)
InitState == [prev |-> 0, ri |-> 0, emo |-> 0, conj |-> 0]

Step(st, c) ==
  [prev |-> c,
   ri |-> IF c \in GcbRI THEN st.ri + 1 ELSE 0,
   emo |-> IF c \in ExtPict THEN 1
           ELSE IF st.emo = 1 /\ c \in GcbExtend THEN 1
           ELSE IF st.emo = 1 /\ c \in GcbZWJ THEN 2
           ELSE 0,
   conj |-> IF c \in InCBConsonant THEN 1
            ELSE IF st.conj >= 1 /\ c \in InCBLinker THEN 2
            ELSE IF st.conj >= 1 /\ c \in InCBExtend THEN st.conj
            ELSE 0]

\* is there a cluster boundary between the text summarised by st (non-empty) and the next code point c ?
Boundary(st, c) ==
  LET p == Gcb(st.prev)  n == Gcb(c) IN
  IF p = "CR" /\ n = "LF" THEN FALSE                                   \* GB3
  ELSE IF p \in {"Control", "CR", "LF"} THEN TRUE                      \* GB4
  ELSE IF n \in {"Control", "CR", "LF"} THEN TRUE                      \* GB5
  ELSE IF p = "L" /\ n \in {"L", "V", "LV", "LVT"} THEN FALSE          \* GB6
  ELSE IF p \in {"LV", "V"} /\ n \in {"V", "T"} THEN FALSE             \* GB7
  ELSE IF p \in {"LVT", "T"} /\ n = "T" THEN FALSE                     \* GB8
  ELSE IF n \in {"Extend", "ZWJ"} THEN FALSE                           \* GB9
  ELSE IF n = "SpacingMark" THEN FALSE                                 \* GB9a
  ELSE IF p = "Prepend" THEN FALSE                                     \* GB9b
  ELSE IF st.conj = 2 /\ c \in InCBConsonant THEN FALSE                \* GB9c
  ELSE IF st.emo = 2 /\ c \in ExtPict THEN FALSE                       \* GB11
  ELSE IF p = "RI" /\ n = "RI" /\ st.ri % 2 = 1 THEN FALSE             \* GB12, GB13
  ELSE TRUE                                                            \* GB999

\* the positions (1-based) at which a cluster starts
RECURSIVE StartsRec(_, _, _, _)
StartsRec(s, k, st, acc) ==
  IF k > Len(s) THEN acc
  ELSE StartsRec(s, k + 1, Step(st, s[k]), IF k = 1 \/ Boundary(st, s[k]) THEN Append(acc, k) ELSE acc)

ClusterStarts(s) == StartsRec(s, 1, InitState, <<>>)

\* one code point per cluster: its first, except that the cluster CR LF is represented by LF
ClusterHeads(s) ==
  LET st == ClusterStarts(s) IN
  [k \in 1..Len(st) |->
     IF s[st[k]] = 13 /\ st[k] < Len(s) /\ s[st[k] + 1] = 10 THEN 10 ELSE s[st[k]]]
=============================================================================
