---------------------------- MODULE BoxcarConform ----------------------------
(***************************************************************************)
(* Trace validation of the vector model: every execution of the real       *)
(* boxcar::Vec recorded under the controlled scheduler (the traces of      *)
(* `nvh boxcar-sched`, the same ones BoxcarTrace.tla and MemModel.tla      *)
(* judge) must be a behaviour of Boxcar.tla with the real geometry         *)
(* (SKIPLOG = 5).  One trace line = one step; lines are bound to actions:  *)
(*                                                                         *)
(*   call <api>            Call(t, op)         the recorded operation      *)
(*   inflight.fetch_add    FetchAdd(t)         returned index = inflight   *)
(*   bucket.alloc          Alloc(t)            for the bucket the model expects*)
(*   bucket.compare_exchange  Cas(t)           success iff the model's pointer is null*)
(*   bucket.load           LoadBucket(t) / GetLoadBucket(t)  null iff the model's pointer is null*)
(*   entry.write           WriteSlot(t)        at the index the model expects*)
(*   active.store          StoreActive(t)                                  *)
(*   active.load           GetLoadActive(t)    value = the model's flag    *)
(*   entry.read            GetRead(t)                                      *)
(*   inflight.load         CountLoad(t) / SnapCount(t)  value = inflight   *)
(*   (iteration)           SnapLoadBucket / SnapLoadActive / SnapRead per index*)
(*   ret <api>             Return(t) / GetReturn(t)  returned index / value / count = the model's*)
(*   call drop_vec         DropVec                                         *)
(*                                                                         *)
(* Decisions that leave no line are silent steps taken with priority: the  *)
(* eager-allocation test (Eager), the loop control of extend (LoadBucket   *)
(* without a load, FetchAdd with reported length 0), the fill callback     *)
(* (Fill) and unwinding (Panic).  The declared ordering of every atomic    *)
(* operation must be the one of the table the exhaustive model runs with   *)
(* (Ords), and the invariants of Boxcar.tla - including RaceFree, the      *)
(* happens-before abstraction - are evaluated on every conforming state.   *)
(* Operations the model does not describe (a fill callback panicking inside *)
(* extend, snapshot beyond the reserved range, exhaustion of the index      *)
(* space, whole-vector memory balance) end the validation of that          *)
(* run (counted, not drift).                                               *)
(* A line no action accepts is MODEL-DRIFT; the rest of the run is skipped.*)
(***************************************************************************)
EXTENDS Boxcar, BoxcarOrd, Json, IOUtils, Integers

T == ndJsonDeserialize(IOEnv.TRACE)

VARIABLES l, hdr, phase, mode, cstat
\* phase: "prelude" (the vector is being created by the main thread) | "run"
cv == <<l, hdr, phase, mode, cstat>>
allvars == <<vars, cv>>
Ev == T[l]
Adv == l' = l + 1
KeepCv == UNCHANGED <<hdr, phase, mode, cstat>>
Stutter == UNCHANGED vars /\ KeepCv /\ Adv
Me == Ev.role

lc0 == [idx |-> 0, n |-> 0, j |-> 0, vals |-> <<>>, e |-> 0, a |-> 0, b |-> 0, res |-> 0, seen |-> {}, after |-> ""]

StartRun ==
  /\ Ev.site = "reset"
  /\ inflight' = 0 /\ bptr' = [b \in 0..(NB-1) |-> 0] /\ allocs' = {} /\ nalloc' = 0
  /\ ent' = [idx \in 0..(Cap-1) |-> NoEnt]
  /\ pc' = [t \in Threads |-> "idle"] /\ lc' = [t \in Threads |-> lc0] /\ prog' = [t \in Threads |-> <<>>]
  /\ kn' = [t \in Threads |-> {}] /\ relk' = [x \in Locs |-> {}]
  /\ dropped' = <<>> /\ done' = {} /\ vecgone' = FALSE /\ bad' = "ok"
  /\ hdr' = l /\ phase' = "prelude" /\ mode' = "run" /\ cstat' = [cstat EXCEPT !.runs = @ + 1]
  /\ Adv

\* Vec::with_capacity: the creator allocates the first bucket(s); the other threads are spawned at `start`
Prelude ==
  /\ Me = "main"
  /\ \/ /\ Ev.site = "bucket.alloc" /\ pc["main"] = "idle" /\ Ev.b < NB /\ bptr[Ev.b] = 0
        /\ nalloc' = nalloc + 1 /\ allocs' = allocs \cup {[id |-> nalloc + 1, b |-> Ev.b]}
        /\ bptr' = [bptr EXCEPT ![Ev.b] = nalloc + 1]
        /\ kn' = [kn EXCEPT !["main"] = @ \cup {<<"b", nalloc + 1>>}]
        /\ UNCHANGED <<inflight, ent, pc, lc, prog, relk, dropped, done, vecgone, bad>> /\ KeepCv
     \/ /\ Ev.site = "bucket.alloc" /\ pc["main"] = "idle" /\ Ev.b >= NB /\ UNCHANGED vars /\ KeepCv   \* beyond the modelled geometry
     \/ /\ Ev.site = "start" /\ phase' = "run"
        /\ kn' = [t \in Threads |-> kn[t] \cup kn["main"]]
        /\ UNCHANGED <<inflight, bptr, allocs, nalloc, ent, pc, lc, prog, relk, dropped, done, vecgone, bad>> /\ UNCHANGED <<hdr, mode, cstat>>
  /\ Adv

OpOf ==
  IF Ev.api = "push" THEN [k |-> "push", v |-> Ev.v]
  ELSE IF Ev.api = "push_panic" THEN [k |-> "pushpanic", v |-> Ev.v]
  ELSE IF Ev.api = "extend" THEN [k |-> "ext", vals |-> Ev.vals, rep |-> Ev.reported]
  ELSE IF Ev.api = "get" THEN [k |-> "get", i |-> Ev.idx]
  ELSE IF Ev.api = "snapshot" THEN [k |-> "snap", start |-> Ev.start]
  ELSE [k |-> "count"]

\* outside the model: a fill callback that panics in the middle of extend; snapshot(start) beyond the reserved range
\* (answered by the documented assertion)
Unsupported == \/ Ev.site = "call" /\ Ev.api \in {"extend_panic", "extend_huge", "push_checked", "mem_balance"}
               \/ Ev.site = "call" /\ Ev.api = "extend" /\ Ev.reported + inflight > Cap - 64      \* beyond the modelled geometry
               \/ Ev.site = "atomic" /\ Ev.loc = "inflight" /\ Ev.op = "load" /\ pc[Me] = "s_cnt" /\ Ev.val < lc[Me].idx

ApiCall ==
  /\ Ev.site = "call"
  /\ \/ /\ Ev.api \in {"push", "push_panic", "extend", "get", "count", "snapshot"}
        /\ Call(Me, OpOf) /\ KeepCv
     \/ /\ Ev.api = "drop_vec" /\ DropVec /\ KeepCv
  /\ Adv

ApiRet ==
  /\ Ev.site = "ret"
  /\ \/ /\ Ev.api = "push" /\ pc[Me] = "ret" /\ Ev.idx = lc[Me].idx /\ Return(Me)
     \/ /\ Ev.api = "extend" /\ ~Ev.panicked /\ pc[Me] = "ret" /\ Return(Me)
     \/ /\ Ev.api \in {"extend", "push_panic"} /\ Ev.panicked /\ pc[Me] = "idle" /\ UNCHANGED vars    \* Panic was the silent step
     \/ /\ Ev.api = "count" /\ pc[Me] = "ret" /\ Ev.res = lc[Me].res /\ Return(Me)
     \/ /\ Ev.api = "get" /\ pc[Me] = "g_ret"
        /\ IF Ev.res.some THEN Ev.res.v = lc[Me].res ELSE lc[Me].res = 0
        /\ GetReturn(Me)
     \/ /\ Ev.api = "snapshot" /\ ~Ev.panicked /\ pc[Me] = "ret" /\ Len(Ev.items) = Len(lc[Me].vals)
        /\ \A k \in 1..Len(Ev.items) :
              /\ Ev.items[k][1] = lc[Me].vals[k][1]
              /\ IF Ev.items[k][2].some THEN Ev.items[k][2].v = lc[Me].vals[k][2] ELSE lc[Me].vals[k][2] = 0
        /\ Return(Me)
     \/ /\ Ev.api = "drop_vec" /\ vecgone /\ UNCHANGED vars
  /\ KeepCv /\ Adv

OrdIs(site) == Ev.ord = Ords[site]

Atomic ==
  /\ Ev.site = "atomic"
  /\ \/ /\ Ev.loc = "inflight" /\ Ev.op = "fetch_add" /\ pc[Me] = "fa" /\ lc[Me].n > 0
        /\ Ev.val = inflight /\ Ev.arg = lc[Me].n /\ OrdIs("fa") /\ FetchAdd(Me)
     \/ /\ Ev.loc = "inflight" /\ Ev.op = "load" /\ pc[Me] = "c_ld" /\ Ev.val = inflight /\ OrdIs("cnt") /\ CountLoad(Me)
     \/ /\ Ev.loc = "inflight" /\ Ev.op = "load" /\ pc[Me] = "idle" /\ Ev.val = inflight /\ OrdIs("cnt") /\ UNCHANGED vars   \* the harness sizing its read-back loop
     \/ /\ Ev.loc = "inflight" /\ Ev.op = "load" /\ pc[Me] = "s_cnt" /\ Ev.val = inflight /\ OrdIs("cnt") /\ SnapCount(Me)
     \/ /\ Ev.loc = "inflight" /\ Ev.op = "load" /\ pc[Me] \in {"s_lb", "s_la", "s_rd"} /\ Ev.ord = "rlx" /\ UNCHANGED vars   \* debug assertion of Iter::next
     \/ /\ Ev.loc = "bucket" /\ Ev.op = "load" /\ pc[Me] = "s_lb"
        /\ Ev.b = lc[Me].b /\ (Ev.val = 0) = (bptr[Ev.b] = 0) /\ OrdIs("lb_get") /\ SnapLoadBucket(Me)
     \/ /\ Ev.loc = "active" /\ Ev.op = "load" /\ pc[Me] = "s_la" /\ Ev.i = lc[Me].idx
        /\ (Ev.val = 1) = ent[lc[Me].idx].active /\ OrdIs("la_get") /\ SnapLoadActive(Me)
     \/ /\ Ev.loc = "bucket" /\ Ev.op = "load" /\ pc[Me] = "lb"
        /\ Ev.b = BucketOf(Cur(Me)) /\ (Ev.val = 0) = (bptr[Ev.b] = 0) /\ OrdIs("lb_push") /\ LoadBucket(Me)
     \/ /\ Ev.loc = "bucket" /\ Ev.op = "load" /\ pc[Me] = "g_lb"
        /\ IF lc[Me].idx < Cap THEN Ev.b = BucketOf(lc[Me].idx) /\ (Ev.val = 0) = (bptr[Ev.b] = 0) ELSE Ev.val = 0
        /\ OrdIs("lb_get") /\ GetLoadBucket(Me)
     \/ /\ Ev.loc = "bucket" /\ Ev.op = "cas" /\ pc[Me] = "cas" /\ Ev.b = lc[Me].b
        /\ Ev.ok = (bptr[Ev.b] = 0) /\ Ev.ord = Ords.cas_ok /\ Ev.ordf = Ords.cas_fail /\ Cas(Me)
     \/ /\ Ev.loc = "active" /\ Ev.op = "store" /\ pc[Me] = "sa" /\ Ev.i = Cur(Me) /\ Ev.val = 1
        /\ OrdIs(IF Op(Me).k = "ext" THEN "sa_ext" ELSE "sa_push") /\ StoreActive(Me)
     \/ /\ Ev.loc = "active" /\ Ev.op = "load" /\ pc[Me] = "g_la" /\ Ev.i = lc[Me].idx
        /\ (Ev.val = 1) = ent[lc[Me].idx].active /\ OrdIs("la_get") /\ GetLoadActive(Me)
  /\ KeepCv /\ Adv

Hook ==
  /\ \/ /\ Ev.site = "bucket.alloc" /\ pc[Me] = "alloc" /\ Ev.b = lc[Me].b /\ Alloc(Me)
     \/ /\ Ev.site = "entry.write" /\ pc[Me] = "ws" /\ Ev.i = Cur(Me) /\ WriteSlot(Me)
     \/ /\ Ev.site = "entry.read" /\ pc[Me] = "g_rd" /\ Ev.i = lc[Me].idx /\ GetRead(Me)
     \/ /\ Ev.site = "entry.read" /\ pc[Me] = "s_rd" /\ Ev.i = lc[Me].idx /\ SnapRead(Me)
     \/ /\ Ev.site = "bucket.dealloc" /\ UNCHANGED vars          \* the loser of the race frees its allocation; Drop for Vec
     \/ /\ Ev.site = "entry.drop" /\ UNCHANGED vars
     \/ /\ Ev.site = "joined" /\ (\A t \in Threads : pc[t] = "idle")
        /\ kn' = [kn EXCEPT !["main"] = UNION { kn[t] : t \in Threads }]
        /\ UNCHANGED <<inflight, bptr, allocs, nalloc, ent, pc, lc, prog, relk, dropped, done, vecgone, bad>>
     \/ /\ Ev.site \in {"end", "rule", "rule.expired"} /\ UNCHANGED vars
  /\ KeepCv /\ Adv

Handled == Prelude \/ ApiCall \/ ApiRet \/ Atomic \/ Hook

\* decisions and callbacks without a line
NeedsLoad(t) == lc[t].j < Len(lc[t].vals) /\ lc[t].j < lc[t].n /\ (lc[t].j = 0 \/ EntryOf(Cur(t)) = 0)
SilentOf(t) ==
  \/ (pc[t] = "fa" /\ lc[t].n = 0 /\ FetchAdd(t))
  \/ Eager(t)
  \/ (pc[t] = "lb" /\ ~NeedsLoad(t) /\ LoadBucket(t))
  \/ Fill(t)
  \/ Panic(t)
Silent == (\E t \in Threads : SilentOf(t)) /\ UNCHANGED cv

Drift ==
  /\ PrintT(ToJson([ev |-> "DRIFT", line |-> l, seq |-> Ev.seq, run |-> T[hdr].run, scenario |-> T[hdr].scenario, role |-> Ev.role, site |-> Ev.site,
                    pc |-> pc, inflight |-> inflight, bptr |-> bptr]))
  /\ mode' = "skip" /\ cstat' = [cstat EXCEPT !.drifted_runs = @ + 1]
  /\ UNCHANGED vars /\ UNCHANGED <<hdr, phase>> /\ Adv
GiveUp ==
  /\ mode' = "skip" /\ cstat' = [cstat EXCEPT !.unsupported_runs = @ + 1]
  /\ UNCHANGED vars /\ UNCHANGED <<hdr, phase>> /\ Adv

TraceNext ==
  /\ l <= Len(T)
  /\ IF Ev.site = "reset" THEN StartRun
     ELSE IF mode = "skip" THEN Stutter
     ELSE IF ENABLED Silent THEN Silent
     ELSE IF Unsupported \/ Ev.site = "abort" THEN GiveUp
     ELSE IF ENABLED Handled THEN Handled
     ELSE Drift

TraceInit ==
  /\ inflight = 0 /\ bptr = [b \in 0..(NB-1) |-> 0] /\ allocs = {} /\ nalloc = 0
  /\ ent = [idx \in 0..(Cap-1) |-> NoEnt]
  /\ pc = [t \in Threads |-> "idle"] /\ lc = [t \in Threads |-> lc0] /\ prog = [t \in Threads |-> <<>>]
  /\ kn = [t \in Threads |-> {}] /\ relk = [x \in Locs |-> {}]
  /\ dropped = <<>> /\ done = {} /\ vecgone = FALSE /\ bad = "ok"
  /\ l = 1 /\ hdr = 1 /\ phase = "prelude" /\ mode = "skip"
  /\ cstat = [runs |-> 0, drifted_runs |-> 0, unsupported_runs |-> 0]

Finished == l > Len(T) /\ PrintT(ToJson([ev |-> "DONE", stat |-> cstat, lines |-> Len(T)])) /\ UNCHANGED allvars
TNext == TraceNext \/ Finished

ConformInv == mode = "run" => (NoBad /\ ActiveWritten /\ DistinctIndices /\ SnapshotsExact /\ RaceFree /\ DroppedOnce /\ NoDropWhileAlive)
=============================================================================
