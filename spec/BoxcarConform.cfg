INIT TraceInit
NEXT TNext
CONSTANTS Threads = {"main", "w1", "w2", "w3", "w4", "w5"}
          NB = 5
          SKIPLOG = 5
          Progs = {}
          Ords <- OrdsDocumented
INVARIANT ConformInv
CHECK_DEADLOCK FALSE
