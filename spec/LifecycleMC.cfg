CONSTANTS MaxHandles = 3
          MaxRestarts = 3
          MaxCreated = 4
INIT Init
NEXT Next
INVARIANTS ActiveFormulaCorrect WorkerStreamDiscipline SnapshotNeverAhead
CHECK_DEADLOCK FALSE
