------------------------------ MODULE NucleoMC ------------------------------
(***************************************************************************)
(* Exhaustive exploration of the protocol model Nucleo.tla for small       *)
(* constants: an event loop that ticks when notified or right after its    *)
(* own edit / restart, at most MaxTicks ticks and MaxEdits pattern edits,  *)
(* injectors pushing single items and (one) batch of two, four patterns    *)
(* (0 empty, 1 = "a", 2 = "ab" typed after 1, 3 = "c" unrelated) over      *)
(* three kinds of item text.                                               *)
(***************************************************************************)
EXTENDS Nucleo

CONSTANTS MaxTicks, MaxEdits

AppendOf(p, q) == (p = 0) \/ (p = 1 /\ q = 2)
ScoreT == << <<5, 5, None>>, <<None, 7, None>>, <<4, None, 4>> >>
LenT == <<2, 1, 1>>
MCRow(it) == [len |-> LenT[(it % 3) + 1], sc |-> [p \in Pats |-> IF p = 0 THEN 0 ELSE ScoreT[p][(it % 3) + 1]]]

Init == InitCore /\ data = [s \in Streams |-> [it \in Items |-> MCRow(it)]]

PushOne(s) == Reserve(s, <<MCRow(resv[s])>>)
ExtendTwo(s) == resv[s] = 0 /\ N >= 2 /\ Reserve(s, <<MCRow(0), MCRow(1)>>)
NotifyOne(s, it) == WNotifySet(s, {it})
NotifyBatch(s) == resv[s] >= 2 /\ WNotifySet(s, {0, 1})
Reparse(p) == edits < MaxEdits /\ p # pat /\ ReparseWith(p, AppendOf(pat, p))
EventLoopTick == ticks < MaxTicks /\ (notifyPending \/ wake) /\ TickBegin
TickLocked == TickLockedWith(resv[cur])
SortStep == SortStepWith(canceled)

Next == (\E s \in Streams : PushOne(s) \/ ExtendTwo(s) \/ NotifyBatch(s)
                            \/ (\E it \in Items : Publish(s, it) \/ NotifyOne(s, it)))
        \/ (\E p \in Pats : Reparse(p))
        \/ (\E c \in BOOLEAN : Restart(c))
        \/ EventLoopTick \/ TickCancel \/ TickLock \/ TickTryFail \/ TickArm \/ TickRetryOk \/ TickRetryFail \/ TickLocked \/ TickStoreNotify \/ TickSpawn
        \/ RunBegin \/ ResetItem \/ ResetDone \/ TScanStart \/ TScanItem
        \/ RescoreCheck \/ (\E k \in 1..N : RescoreOne(k) \/ RescorePh({k})) \/ RescoreDone
        \/ RetryItem \/ RetryDone \/ (\E it \in Items : ScanItem(it)) \/ ScanDone
        \/ SortStep \/ NRead \/ Notify \/ RunEnd
Spec == Init /\ [][Next]_vars
=============================================================================
