---------------------------- MODULE NucleoConform ----------------------------
(***************************************************************************)
(* Trace validation of the protocol model: every recorded execution of the *)
(* real Nucleo under the controlled scheduler (the same ndjson traces the  *)
(* monitors of NucleoTrace.tla read) must be a behaviour of Nucleo.tla.    *)
(*                                                                         *)
(* One trace line = one step of TraceNext.  Each line is bound to the      *)
(* action of Nucleo.tla whose hook site / atomic operation it is (table in *)
(* Nucleo.tla's header), with the logged values bound to the action's      *)
(* parameters and compared with the model's state:                         *)
(*   - every atomic load the scheduler serialised must return the value    *)
(*     the model's variable has at that step (flags, reserved count,       *)
(*     publication bit of the entry);                                      *)
(*   - the scalars logged by the hooks (last_snapshot, in-flight length,   *)
(*     match count, status, cleared, running, was_canceled ...) must equal *)
(*     the model's;                                                        *)
(*   - the decisions (spawn or not, snapshot taken or not, notify or not)  *)
(*     must be the model's;                                                *)
(*   - every snapshot the harness dumps must equal the model's `snap`      *)
(*     (count, pattern, every match with index and score, in order), and   *)
(*     every Status returned by tick must equal the model's.               *)
(* Lines that are not protocol steps (bucket management, payload accesses, *)
(* harness bookkeeping) stutter.  Steps of the code that leave no line     *)
(* (end of the retain loops) are silent model steps taken with priority;   *)
(* the unlock after run.end is composed with the next acquisition          *)
(* (RunEndThenAcquire).                                                    *)
(*                                                                         *)
(* A line no action accepts is reported as DRIFT (the first one per        *)
(* recorded run; the rest of that run is skipped, validation resumes at    *)
(* the next run).  DRIFT means "the code left the specification", which is *)
(* either a change of the protocol or a defect; the verdict about the      *)
(* listed properties stays with the monitors (NucleoTrace.tla), the        *)
(* conformance result says whether the exhaustively checked model is still *)
(* a model of this code.  The invariants of Nucleo.tla are evaluated on    *)
(* every conforming state (cfg), with the real payload table.              *)
(***************************************************************************)
EXTENDS Nucleo, Json, IOUtils, Integers

T == ndJsonDeserialize(IOEnv.TRACE)

VARIABLES l,        \* next line
          hdr,      \* line of the current run's header (payload table)
          pend,     \* per injector thread: the call in progress
          pscan,    \* per pool thread: entry whose publication bit it has seen set, cancel check pending
          relSince, \* the model has released the worker lock since the UI thread's previous line
          rend,     \* the pool thread whose closure has reported run.end and whose unlock the model has not taken yet ("" if none)
          cnt,      \* items.count() as read by the tick in progress (-1: not read)
          expect,   \* what the last TickLockedWith decided, to be confirmed by the hooks that follow
          seen,     \* hooks confirmed since
          uicall,   \* API call of the UI thread in progress
          mode,     \* "run" | "skip" (after a drift, until the next header)
          cstat
cv == <<l, hdr, pend, pscan, relSince, rend, cnt, expect, seen, uicall, mode, cstat>>
allvars == <<vars, cv>>

Ev == T[l]
Roles == {"main"} \cup {"w1", "w2", "w3", "w4", "w5", "w6", "w7", "w8"} \cup {"pool0", "pool1", "pool2", "pool3", "pool4", "pool5", "pool6", "pool7"}
IsMain == Ev.role = "main"
IsW == Ev.role \in {"w1", "w2", "w3", "w4", "w5", "w6", "w7", "w8"}
IsPool == Ev.role \in {"pool0", "pool1", "pool2", "pool3", "pool4", "pool5", "pool6", "pool7"}
NoPend == [vals |-> <<>>, stream |-> -1, base |-> -1]
Pow2 == <<1, 2, 4, 8, 16, 32, 64, 128, 256, 512, 1024>>
Idx(b, i) == i      \* the trace renderer already gives the index within the vector
StreamOf(name) == CHOOSE s \in 0..9 : name = <<"s0", "s1", "s2", "s3", "s4", "s5", "s6", "s7", "s8", "s9">>[s + 1]
B2N(b) == IF b THEN 1 ELSE 0
StatusCode == [U |-> 0, P |-> 1, R |-> 2]
Bit(x, k) == (x \div Pow2[k + 1]) % 2 = 1

\* payload row of item value v in the current run's header
RowOfV(v) ==
  LET its == T[hdr].items
      k == CHOOSE k \in 1..Len(its) : its[k].v = v IN
  [len |-> its[k].len, sc |-> [p \in Pats |-> IF its[k].scores[p + 1] = -1 THEN None ELSE its[k].scores[p + 1]]]
BlankRow == [len |-> 0, sc |-> [p \in Pats |-> None]]

Adv == l' = l + 1
KeepCv == UNCHANGED <<hdr, pend, pscan, rend, rend, cnt, expect, seen, uicall, mode, cstat>>
Stutter == UNCHANGED vars /\ KeepCv /\ Adv
NoExpect == [snap |-> FALSE, set |-> FALSE]

\* ------------------------------------------------------------------ a new recorded run
StartRun ==
  /\ Ev.site = "reset"
  /\ resv' = resv0 /\ wst' = wst0 /\ pub' = pub0 /\ data' = [s \in Streams |-> [it \in Items |-> BlankRow]]
  /\ cur' = 0 /\ pat' = 0 /\ patStatus' = "U" /\ state' = "Init" /\ snap' = snap0
  /\ lock' = "free" /\ canceled' = FALSE /\ shouldNotify' = FALSE /\ w' = w0 /\ ui' = ui0 /\ wk' = wk0
  /\ notifyPending' = FALSE /\ wake' = TRUE /\ promise' = FALSE /\ lastRunning' = FALSE
  /\ ticks' = 0 /\ edits' = 0 /\ bad' = "ok" /\ tails' = tails0
  /\ hdr' = l /\ pend' = [r \in Roles |-> NoPend] /\ pscan' = [r \in Roles |-> -1] /\ rend' = "" /\ cnt' = -1
  /\ expect' = NoExpect /\ seen' = {} /\ uicall' = "" /\ mode' = "run"
  /\ cstat' = [cstat EXCEPT !.runs = @ + 1]
  /\ Adv

\* ------------------------------------------------------------------ UI thread: API level
UiCall ==
  /\ IsMain /\ Ev.site = "call"
  /\ \/ /\ Ev.api = "reparse" /\ ReparseWith(Ev.pat, Ev.append) /\ KeepCv
     \/ /\ Ev.api = "tick" /\ ui.pc = "idle" /\ uicall' = "tick" /\ cnt' = -1 /\ expect' = NoExpect /\ seen' = {}
        /\ UNCHANGED vars /\ UNCHANGED <<hdr, pend, pscan, rend, mode, cstat>>
     \/ /\ Ev.api = "restart" /\ ui.pc = "idle" /\ uicall' = (IF Ev.clear THEN "restart_clear" ELSE "restart_keep")
        /\ UNCHANGED vars /\ UNCHANGED <<hdr, pend, pscan, rend, cnt, expect, seen, mode, cstat>>
     \/ /\ Ev.api = "drop_nucleo" /\ ui.pc = "idle" /\ uicall' = "drop"
        /\ UNCHANGED vars /\ UNCHANGED <<hdr, pend, pscan, rend, cnt, expect, seen, mode, cstat>>
     \/ /\ Ev.api \in {"dump", "injector", "clone_injector", "drop_injector", "update_config"} /\ UNCHANGED vars /\ KeepCv
  /\ Adv

SnapshotAgrees ==
  /\ Ev.count = snap.count /\ Ev.pat = snap.pat /\ Len(Ev.matches) = Len(snap.matches)
  /\ \A k \in 1..Len(snap.matches) : Ev.matches[k][1] = snap.matches[k][1] /\ Ev.matches[k][2] = snap.matches[k][2]

UiRet ==
  /\ IsMain /\ Ev.site = "ret"
  /\ \/ /\ Ev.api = "tick" /\ uicall = "tick" /\ ui.pc = "idle"
        /\ Ev.changed = ui.changed /\ Ev.running = lastRunning
        /\ uicall' = "" /\ cstat' = [cstat EXCEPT !.ticks = @ + 1]
        /\ UNCHANGED <<hdr, pend, pscan, rend, cnt, expect, seen, mode>>
     \/ /\ Ev.api = "dump" /\ SnapshotAgrees /\ cstat' = [cstat EXCEPT !.snapshots = @ + 1]
        /\ UNCHANGED <<hdr, pend, pscan, rend, cnt, expect, seen, uicall, mode>>
     \/ /\ Ev.api \in {"restart", "drop_nucleo"} /\ uicall' = "" /\ UNCHANGED <<hdr, pend, pscan, rend, cnt, expect, seen, mode, cstat>>
     \/ /\ Ev.api \in {"reparse", "injector", "clone_injector", "drop_injector", "update_config"} /\ KeepCv
  /\ UNCHANGED vars /\ Adv

\* ------------------------------------------------------------------ UI thread: atomics and hooks
UiAtomic ==
  /\ IsMain /\ Ev.site = "atomic"
  /\ \/ /\ Ev.loc = "should_notify" /\ Ev.op = "store" /\ Ev.val = 0 /\ uicall = "tick" /\ TickBegin /\ KeepCv
     \/ /\ Ev.loc = "should_notify" /\ Ev.op = "store" /\ Ev.val = 1
        /\ (TickArm \/ TickStoreNotify) /\ KeepCv
     \/ /\ Ev.loc = "canceled" /\ Ev.op = "store" /\ Ev.val = 1
        /\ \/ uicall = "tick" /\ TickCancel
           \/ uicall = "restart_clear" /\ Restart(TRUE)
           \/ uicall = "restart_keep" /\ Restart(FALSE)
           \/ uicall = "drop" /\ Drop
        /\ KeepCv
     \/ /\ Ev.loc = "canceled" /\ Ev.op = "store" /\ Ev.val = 0 /\ ~canceled /\ ui.pc = "spawn" /\ UNCHANGED vars
        /\ seen' = seen \cup {"cancel0"} /\ UNCHANGED <<hdr, pend, pscan, rend, cnt, expect, uicall, mode, cstat>>
     \/ /\ Ev.loc = "inflight" /\ Ev.op = "load"
        /\ IF uicall = "tick" /\ ui.pc \in {"lockwait", "try"}
           THEN /\ StreamOf(Ev.vec) = cur /\ Ev.val = resv[cur]
                /\ (TickLock \/ RunEndThenAcquire)
                /\ cnt' = Ev.val /\ rend' = (IF lock = "free" THEN rend ELSE "") /\ UNCHANGED <<hdr, pend, pscan, expect, seen, uicall, mode, cstat>>
           ELSE IF uicall = "tick" /\ ui.pc = "locked" /\ cnt = -1      \* the lock was obtained by the second attempt
           THEN /\ StreamOf(Ev.vec) = cur /\ Ev.val = resv[cur] /\ UNCHANGED vars
                /\ cnt' = Ev.val /\ UNCHANGED <<hdr, pend, pscan, rend, expect, seen, uicall, mode, cstat>>
           ELSE UNCHANGED vars /\ KeepCv
     \/ /\ Ev.loc \in {"active", "bucket"} /\ UNCHANGED vars /\ KeepCv
  /\ Adv

UiHook ==
  /\ IsMain
  /\ \/ /\ Ev.site = "tick.begin" /\ ui.pc \in {"cancel", "try"} /\ UNCHANGED vars /\ KeepCv
     \/ /\ Ev.site = "tick.lock" /\ Ev.a[1] = 1 /\ ui.pc = "lockwait" /\ UNCHANGED vars /\ KeepCv
     \/ /\ Ev.site = "tick.lock" /\ Ev.a[1] = 0 /\ (TickLock \/ RunEndThenAcquire)   \* lock_arc() returned
        /\ rend' = (IF lock = "free" THEN rend ELSE "") /\ UNCHANGED <<hdr, pend, pscan, cnt, expect, seen, uicall, mode, cstat>>
     \/ /\ Ev.site = "tick.try_lock" /\ Ev.a[1] = 1 /\ ui.pc = "try"
        /\ (expect.set => expect.snap = ("snap" \in seen))
        /\ expect' = NoExpect /\ seen' = {} /\ UNCHANGED vars /\ UNCHANGED <<hdr, pend, pscan, rend, cnt, uicall, mode, cstat>>
     \/ /\ Ev.site = "tick.try_lock" /\ Ev.a[1] = 0 /\ UNCHANGED vars /\ KeepCv
     \/ /\ Ev.site = "tick.try_lock_failed" /\ TickTryFailAt(lock # "free" \/ relSince) /\ KeepCv
     \/ /\ Ev.site = "tick.armed" /\ ui.pc = "retry" /\ shouldNotify /\ UNCHANGED vars /\ KeepCv
     \/ /\ Ev.site = "tick.retry_lock" /\ Ev.a[1] = 1 /\ (TickRetryOk \/ RunEndThenAcquire)
        /\ rend' = (IF lock = "free" THEN rend ELSE "") /\ UNCHANGED <<hdr, pend, pscan, cnt, expect, seen, uicall, mode, cstat>>
     \/ /\ Ev.site = "tick.retry_lock" /\ Ev.a[1] = 0 /\ TickRetryFailAt(lock # "free" \/ relSince) /\ KeepCv
     \/ /\ Ev.site = "tick.locked"
        /\ Bit(Ev.a[1], 0) = w.running /\ Bit(Ev.a[1], 1) = w.wasCanceled /\ Bit(Ev.a[1], 2) = TLCancelling
        /\ Ev.a[2] = w.last - Len(w.inflight) /\ Ev.a[3] = w.last
        /\ (TLCancelling \/ cnt >= 0)
        /\ Bit(Ev.a[1], 3) = TLRunning(cnt)
        /\ TickLockedWith(cnt)
        /\ expect' = [snap |-> TLDoSnap, set |-> TRUE] /\ seen' = {} /\ cnt' = -1
        /\ UNCHANGED <<hdr, pend, pscan, rend, uicall, mode, cstat>>
     \/ /\ Ev.site = "tick.snapshot_update" /\ expect.snap /\ Ev.a[1] = snap.count /\ Ev.a[2] = Len(snap.matches)
        /\ seen' = seen \cup {"snap"} /\ UNCHANGED vars /\ UNCHANGED <<hdr, pend, pscan, rend, cnt, expect, uicall, mode, cstat>>
     \/ /\ Ev.site = "tick.spawn" /\ "cancel0" \in seen
        /\ Ev.a[1] = StatusCode[IF ui.phase = 1 THEN ui.stt ELSE "U"] /\ Ev.a[2] = B2N(ui.cleared) /\ Ev.a[3] = B2N(TLCancelling)
        /\ TickSpawn /\ KeepCv
     \/ /\ Ev.site = "tick.end" /\ ui.pc = "idle"
        /\ (expect.set => expect.snap = ("snap" \in seen))
        /\ Ev.a[1] = B2N(ui.changed) /\ Ev.a[2] = B2N(lastRunning)
        /\ expect' = NoExpect /\ seen' = {} /\ UNCHANGED vars /\ UNCHANGED <<hdr, pend, pscan, rend, cnt, uicall, mode, cstat>>
     \/ /\ Ev.site = "drop.lock" /\ ui.pc = "dropped" /\ UNCHANGED vars /\ KeepCv
     \/ /\ Ev.site = "restart" /\ uicall \in {"restart_clear", "restart_keep"} /\ canceled /\ state = "Cleared" /\ UNCHANGED vars /\ KeepCv
     \/ /\ Ev.site \in {"spawn", "joined", "start", "end", "quiescent", "rule", "rule.expired",
                        "bucket.alloc", "bucket.dealloc", "entry.drop", "entry.read", "entry.write"}
        /\ UNCHANGED vars /\ KeepCv
  /\ Adv

\* ------------------------------------------------------------------ injector threads
Writer ==
  /\ IsW
  /\ \/ /\ Ev.site = "call" /\ Ev.api = "push" /\ pend' = [pend EXCEPT ![Ev.role] = [vals |-> <<Ev.v>>, stream |-> Ev.stream, base |-> -1]]
        /\ UNCHANGED vars /\ UNCHANGED <<hdr, pscan, rend, cnt, expect, seen, uicall, mode, cstat>>
     \/ /\ Ev.site = "call" /\ Ev.api = "extend" /\ pend' = [pend EXCEPT ![Ev.role] = [vals |-> Ev.vals, stream |-> Ev.stream, base |-> -1]]
        /\ UNCHANGED vars /\ UNCHANGED <<hdr, pscan, rend, cnt, expect, seen, uicall, mode, cstat>>
     \/ /\ Ev.site = "ret" /\ Ev.api \in {"push", "extend"} /\ pend' = [pend EXCEPT ![Ev.role] = NoPend]
        /\ UNCHANGED vars /\ UNCHANGED <<hdr, pscan, rend, cnt, expect, seen, uicall, mode, cstat>>
     \/ /\ Ev.site \in {"call", "ret"} /\ Ev.api = "drop_injector" /\ UNCHANGED vars /\ KeepCv
     \/ /\ Ev.site = "atomic" /\ Ev.loc = "inflight" /\ Ev.op = "fetch_add"
        /\ LET p == pend[Ev.role] IN
           /\ p.stream = StreamOf(Ev.vec) /\ Ev.arg = Len(p.vals) /\ Ev.val = resv[p.stream]
           /\ Reserve(p.stream, [k \in 1..Len(p.vals) |-> RowOfV(p.vals[k])])
           /\ pend' = [pend EXCEPT ![Ev.role].base = Ev.val]
        /\ UNCHANGED <<hdr, pscan, rend, cnt, expect, seen, uicall, mode, cstat>>
     \/ /\ Ev.site = "atomic" /\ Ev.loc = "active" /\ Ev.op = "store"
        /\ LET p == pend[Ev.role]  it == Idx(Ev.b, Ev.i) IN
           /\ it >= p.base /\ it < p.base + Len(p.vals) /\ Publish(p.stream, it)
        /\ KeepCv
     \/ /\ Ev.site = "notify"
        /\ LET p == pend[Ev.role] IN WNotifySet(p.stream, p.base..(p.base + Len(p.vals) - 1))
        /\ KeepCv
     \/ /\ \/ Ev.site \in {"notify.done", "entry.write", "entry.drop", "bucket.alloc", "bucket.dealloc"}
           \/ (Ev.site = "atomic" /\ Ev.loc = "bucket")
        /\ UNCHANGED vars /\ KeepCv
  /\ Adv

\* ------------------------------------------------------------------ pool threads
PoolActiveLoad ==
  /\ IsPool /\ Ev.site = "atomic" /\ Ev.loc = "active" /\ Ev.op = "load"
  /\ LET it == Idx(Ev.b, Ev.i)  set == (Ev.val = 1) IN
     /\ set = (it \in WPub)
     /\ \/ /\ wk.pc = "reset" /\ wk.ci <= Len(w.inflight) /\ w.inflight[wk.ci] = it /\ ResetItem /\ KeepCv
        \/ /\ wk.pc = "retry" /\ wk.ci <= Len(w.inflight) /\ w.inflight[wk.ci] = it /\ RetryItem /\ KeepCv
        \/ /\ wk.pc \in {"tscan0", "tscan"} /\ wk.todo # {} /\ it = MinOf(wk.todo) /\ TScanItem /\ KeepCv
        \/ /\ wk.pc = "scan" /\ it \in wk.todo /\ pscan[Ev.role] = -1
           /\ IF set THEN /\ pscan' = [pscan EXCEPT ![Ev.role] = it] /\ UNCHANGED vars
                          /\ UNCHANGED <<hdr, pend, rend, cnt, expect, seen, uicall, mode, cstat>>
                     ELSE ScanItem(it) /\ KeepCv
        \/ /\ wk.pc \in {"rescore", "sort"} /\ set /\ UNCHANGED vars /\ KeepCv      \* get_unchecked: must be published
  /\ Adv

PoolAtomic ==
  /\ IsPool /\ Ev.site = "atomic"
  /\ \/ /\ Ev.loc = "bucket" /\ UNCHANGED vars /\ KeepCv
     \/ /\ Ev.loc = "inflight" /\ Ev.op = "load" /\ Ev.ord = "rlx" /\ UNCHANGED vars /\ KeepCv
     \/ /\ Ev.loc = "inflight" /\ Ev.op = "load" /\ Ev.ord = "acq" /\ StreamOf(Ev.vec) = w.items /\ Ev.val = WRes
        /\ \/ wk.pc \in {"tscan0", "tscan"} /\ TScanStart
           \/ wk.pc = "retry" /\ RetryDone
        /\ KeepCv
     \/ /\ Ev.loc = "canceled" /\ Ev.op = "load" /\ (Ev.val = 1) = canceled
        /\ \/ /\ wk.pc = "rescore" /\ IF canceled THEN UNCHANGED vars ELSE RescoreCheck
              /\ KeepCv
           \/ /\ wk.pc = "scan" /\ pscan[Ev.role] >= 0 /\ ScanItem(pscan[Ev.role])
              /\ pscan' = [pscan EXCEPT ![Ev.role] = -1] /\ UNCHANGED <<hdr, pend, rend, cnt, expect, seen, uicall, mode, cstat>>
           \/ /\ wk.pc = "sort" /\ UNCHANGED vars /\ KeepCv
     \/ /\ Ev.loc = "should_notify" /\ Ev.op = "load" /\ (Ev.val = 1) = shouldNotify /\ NRead
        \* a closure that saw the flag owes a notification before it ends (pscan = -2)
        /\ pscan' = [pscan EXCEPT ![Ev.role] = IF shouldNotify THEN -2 ELSE -1]
        /\ UNCHANGED <<hdr, pend, rend, cnt, expect, seen, uicall, mode, cstat>>
  /\ Adv

\* the placeholder positions the finished parallel region has admitted: the smallest wk.rok of them
PhSet == LET ph == { k \in wk.rtodo : w.matches[k][1] = MAXI } IN
         { k \in ph : Cardinality({ j \in ph : j < k }) < wk.rok }
PosOfIdx(idx) == CHOOSE k \in wk.rtodo : w.matches[k][1] = idx

PoolHook ==
  /\ IsPool
  /\ \/ /\ Ev.site = "run.begin"
        /\ Ev.a[1] = StatusCode[wk.status] /\ Ev.a[2] = B2N(wk.cleared) /\ Ev.a[3] = w.last /\ Ev.a[4] = Len(w.inflight)
        /\ RunBegin /\ cstat' = [cstat EXCEPT !.worker_runs = @ + 1] /\ UNCHANGED <<hdr, pend, pscan, rend, cnt, expect, seen, uicall, mode>>
     \/ /\ Ev.site = "run.rescore_item" /\ (\E k \in wk.rtodo : w.matches[k][1] = Ev.a[1]) /\ RescoreOne(PosOfIdx(Ev.a[1])) /\ KeepCv
     \/ /\ Ev.site = "par.rescore" /\ Ev.a[1] = 1 /\ wk.pc \in {"rescore", "sort"} /\ UNCHANGED vars /\ KeepCv
     \/ /\ Ev.site = "par.rescore" /\ Ev.a[1] = 0
        /\ IF wk.pc = "rescore" /\ wk.rok > 0 THEN RescorePh(PhSet) ELSE UNCHANGED vars
        /\ KeepCv
     \/ /\ Ev.site = "par.scan" /\ Ev.a[1] = 1 /\ wk.pc = "scan" /\ UNCHANGED vars /\ KeepCv
     \/ /\ Ev.site = "par.scan" /\ Ev.a[1] = 0 /\ ScanDone /\ KeepCv
     \/ /\ Ev.site = "run.sort_begin" /\ wk.pc = "sort" /\ Ev.a[1] = Len(w.matches) /\ UNCHANGED vars /\ KeepCv
     \/ /\ Ev.site = "run.sort_end" /\ Ev.a[2] = Len(w.matches) /\ Ev.a[3] = wk.unmatched /\ SortStepWith(Ev.a[1] = 1) /\ KeepCv
     \/ /\ Ev.site = "run.unlocked"
        /\ IF rend = Ev.role THEN wk.pc = "end" /\ Ev.a[1] = B2N(wk.fin) /\ RunEnd
           ELSE UNCHANGED vars            \* the model has taken this unlock already: an acquisition was recorded first
        /\ rend' = (IF rend = Ev.role THEN "" ELSE rend) /\ UNCHANGED <<hdr, pend, pscan, cnt, expect, seen, uicall, mode, cstat>>
     \/ /\ Ev.site = "notify" /\ pscan[Ev.role] = -2 /\ Notify
        /\ pscan' = [pscan EXCEPT ![Ev.role] = -1] /\ UNCHANGED <<hdr, pend, rend, cnt, expect, seen, uicall, mode, cstat>>
     \/ /\ Ev.site = "run.end" /\ wk.pc = "end" /\ rend = ""
        /\ Ev.a[1] = B2N(w.wasCanceled) /\ Ev.a[2] = w.last /\ Ev.a[3] = Len(w.inflight) /\ Ev.a[4] = Len(w.matches)
        /\ rend' = Ev.role /\ UNCHANGED vars /\ UNCHANGED <<hdr, pend, pscan, cnt, expect, seen, uicall, mode, cstat>>
     \/ /\ Ev.site = "run.done" /\ pscan[Ev.role] = -1 /\ UNCHANGED vars /\ KeepCv
     \/ /\ Ev.site \in {"notify.done", "run.scan_item", "run.remove_in_flight", "matcher.use", "entry.read", "par.sort", "entry.drop", "bucket.dealloc"}
        /\ UNCHANGED vars /\ KeepCv
  /\ Adv

\* ------------------------------------------------------------------ composition
Handled == UiCall \/ UiRet \/ UiAtomic \/ UiHook \/ Writer \/ PoolActiveLoad \/ PoolAtomic \/ PoolHook
\* steps of the code that leave no line: the end of the two retain loops and of the rescoring region
Silent == (ResetDone \/ RescoreDone) /\ UNCHANGED <<l, hdr, pend, pscan, rend, cnt, expect, seen, uicall, mode, cstat>>

Drift ==
  /\ PrintT(ToJson([ev |-> "DRIFT", line |-> l, seq |-> Ev.seq, run |-> T[hdr].run, scenario |-> T[hdr].scenario, role |-> Ev.role, site |-> Ev.site,
                    uipc |-> ui.pc, wkpc |-> wk.pc, lock |-> lock, canceled |-> canceled, should_notify |-> shouldNotify,
                    last |-> w.last, inflight |-> w.inflight, nmatches |-> Len(w.matches), resv |-> resv[w.items], cnt |-> cnt]))
  /\ mode' = "skip" /\ cstat' = [cstat EXCEPT !.drifted_runs = @ + 1]
  /\ UNCHANGED vars /\ UNCHANGED <<hdr, pend, pscan, rend, cnt, expect, seen, uicall>> /\ Adv

EndsRun == Ev.site \in {"abort", "end"}

TraceNext ==
  /\ l <= Len(T)
  /\ IF Ev.site = "reset" THEN StartRun
     ELSE IF mode = "skip" THEN Stutter
     ELSE IF ENABLED Silent THEN Silent
     ELSE IF ENABLED Handled THEN Handled
     ELSE IF Ev.site = "abort" THEN Stutter     \* the library crashed (a panic is data; judged by the monitors)
     ELSE Drift
  /\ relSince' = IF lock # "free" /\ lock' = "free" THEN TRUE
                 ELSE IF l' # l /\ Ev.role = "main" THEN FALSE ELSE relSince

TraceInit ==
  /\ InitCore /\ data = [s \in Streams |-> [it \in Items |-> BlankRow]]
  /\ l = 1 /\ hdr = 1 /\ pend = [r \in Roles |-> NoPend] /\ pscan = [r \in Roles |-> -1] /\ relSince = FALSE /\ rend = "" /\ cnt = -1
  /\ expect = NoExpect /\ seen = {} /\ uicall = "" /\ mode = "skip"
  /\ cstat = [runs |-> 0, drifted_runs |-> 0, ticks |-> 0, snapshots |-> 0, worker_runs |-> 0]

Done == l > Len(T) /\ PrintT(ToJson([ev |-> "DONE", stat |-> cstat, lines |-> Len(T)])) /\ UNCHANGED allvars
Next == TraceNext \/ Done

\* the model's invariants on every conforming state (real payloads)
ConformInv == mode = "run" => (NoBadDeref /\ SnapshotSafe /\ SnapshotNoDup /\ SnapshotScores /\ SnapshotOrder /\ SnapshotCount /\ RestartIsolation)
=============================================================================
