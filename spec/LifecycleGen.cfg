CONSTANTS MaxHandles = 3
          MaxRestarts = 2
          MaxCreated = 3
INIT GInit
NEXT GNext
VIEW GView
INVARIANTS ActiveFormulaCorrect WorkerStreamDiscipline SnapshotNeverAhead
CHECK_DEADLOCK FALSE
