------------------------------- MODULE Utf32 -------------------------------
(***************************************************************************)
(* The documented content of Utf32Str / Utf32String for a source string s  *)
(* (sequence of code points): the ASCII form (bytes = the string) exactly  *)
(* when s is ASCII and contains no CR LF pair, otherwise one code point    *)
(* per extended grapheme cluster.                                          *)
(***************************************************************************)
EXTENDS Graphemes

HasCrLf(s) == \E k \in 1..Len(s) - 1 : s[k] = 13 /\ s[k + 1] = 10
IsAsciiForm(s) == (\A k \in 1..Len(s) : s[k] < 128) /\ ~HasCrLf(s)

Convert(s) == IF IsAsciiForm(s) THEN [repr |-> "A", chars |-> s]
              ELSE [repr |-> "U", chars |-> ClusterHeads(s)]

Rev(q) == [k \in 1..Len(q) |-> q[Len(q) + 1 - k]]
=============================================================================
