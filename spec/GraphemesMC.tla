---------------------------- MODULE GraphemesMC ----------------------------
(***************************************************************************)
(* Sanity lemmas of the grapheme rule machine on every string of length    *)
(* <= LG over one representative per break class (plus a second regional   *)
(* indicator, pictograph and consonant).                                   *)
(***************************************************************************)
EXTENDS Graphemes

CONSTANTS SigmaG, LG
VARIABLE gtext
Init == gtext = <<>>
Extend(c) == Len(gtext) < LG /\ gtext' = Append(gtext, c)
Next == \E c \in SigmaG : Extend(c)

Starts == ClusterStarts(gtext)
IsStart(k) == \E j \in 1..Len(Starts) : Starts[j] = k
Hard(c) == Gcb(c) \in {"Control", "CR", "LF"}

InvFirst == Len(gtext) > 0 => (Len(Starts) >= 1 /\ Starts[1] = 1)
InvIncreasing == \A j \in 1..Len(Starts) - 1 : Starts[j] < Starts[j + 1]
InvCrLf == \A k \in 2..Len(gtext) : (gtext[k-1] = 13 /\ gtext[k] = 10) => ~IsStart(k)
InvBreakAfterControl == \A k \in 2..Len(gtext) : (Hard(gtext[k-1]) /\ ~(gtext[k-1] = 13 /\ gtext[k] = 10)) => IsStart(k)
InvBreakBeforeControl == \A k \in 2..Len(gtext) : (Hard(gtext[k]) /\ ~(gtext[k-1] = 13 /\ gtext[k] = 10)) => IsStart(k)
InvNoBreakBeforeExtend ==
  \A k \in 2..Len(gtext) : (Gcb(gtext[k]) \in {"Extend", "ZWJ", "SpacingMark"} /\ ~Hard(gtext[k-1])) => ~IsStart(k)
InvNoBreakAfterPrepend == \A k \in 2..Len(gtext) : (Gcb(gtext[k-1]) = "Prepend" /\ ~Hard(gtext[k])) => ~IsStart(k)
InvOtherOther == \A k \in 2..Len(gtext) : (Gcb(gtext[k-1]) = "Other" /\ Gcb(gtext[k]) = "Other"
                                             /\ ~(gtext[k] \in InCBConsonant) /\ ~(gtext[k] \in ExtPict)) => IsStart(k)
InvHeads == Len(ClusterHeads(gtext)) = Len(Starts)
=============================================================================
