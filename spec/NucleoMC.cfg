SPECIFICATION Spec
CONSTANTS N = 2
          MaxStreams = 2
          MaxTicks = 3
          MaxEdits = 1
          SortInflight = TRUE
          Pats = {0, 1, 2, 3}
          Appendable = {0, 1, 2, 3}
INVARIANTS NoBadDeref SnapshotSafe SnapshotNoDup SnapshotScores SnapshotOrder SnapshotCount RestartIsolation NoLostWakeup Converged RunningFalseMeansCaughtUp
CHECK_DEADLOCK FALSE
