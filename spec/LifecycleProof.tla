--------------------------- MODULE LifecycleProof ---------------------------
(***************************************************************************)
(* C20 for an unbounded number of handles, restarts and ticks (TLAPS):     *)
(* the discipline "the worker holds the current stream exactly when the    *)
(* state is not Cleared, and neither worker nor snapshot is ever ahead of  *)
(* the matcher" is an inductive invariant of Lifecycle's actions (with the *)
(* bounds of the model-checking instance removed), and under it the        *)
(* reference-count formula of active_injectors() equals the number of live *)
(* handles of the current stream.  LifecycleMC explores the same actions   *)
(* exhaustively for 3 handles / 3 restarts; LifecycleGen turns that state  *)
(* graph into scripts replayed on the real Nucleo.                         *)
(***************************************************************************)
EXTENDS Integers, FiniteSets, TLAPS

VARIABLES cur, wstream, sstream, state, handles, nexth, pending, pendcur
lvars == <<cur, wstream, sstream, state, handles, nexth, pending, pendcur>>

Init == /\ cur = 0 /\ wstream = 0 /\ sstream = 0 /\ state = "Init" /\ handles = {} /\ nexth = 1
        /\ pending = FALSE /\ pendcur = FALSE

\* the actions of Lifecycle.tla without the bounds MaxHandles / MaxRestarts / MaxCreated
NewInjector == /\ handles' = handles \cup {<<nexth, cur>>} /\ nexth' = nexth + 1
               /\ UNCHANGED <<cur, wstream, sstream, state, pending, pendcur>>
CloneInjector(h) == /\ h \in handles
                    /\ handles' = handles \cup {<<nexth, h[2]>>} /\ nexth' = nexth + 1
                    /\ UNCHANGED <<cur, wstream, sstream, state, pending, pendcur>>
DropInjector(h) == /\ h \in handles /\ handles' = handles \ {h}
                   /\ UNCHANGED <<cur, wstream, sstream, state, nexth, pending, pendcur>>
Restart(clear) == /\ cur' = cur + 1 /\ state' = "Cleared"
                  /\ sstream' = IF clear THEN cur + 1 ELSE sstream
                  /\ pendcur' = FALSE
                  /\ UNCHANGED <<wstream, handles, nexth, pending>>
Tick(completes) ==
  LET cancel == state # "Fresh"
      s1 == IF pending /\ pendcur /\ ~cancel THEN wstream ELSE sstream
      w1 == IF cancel THEN cur ELSE wstream IN
  /\ wstream' = w1
  /\ state' = "Fresh"
  /\ IF cancel
     THEN /\ sstream' = IF completes THEN w1 ELSE s1
          /\ pending' = ~completes /\ pendcur' = ~completes
     ELSE /\ sstream' = IF completes THEN s1 ELSE sstream
          /\ pending' = IF completes THEN FALSE ELSE pending
          /\ pendcur' = IF completes THEN FALSE ELSE pendcur
  /\ UNCHANGED <<cur, handles, nexth>>

Next == \/ NewInjector
        \/ \E h \in handles : CloneInjector(h) \/ DropInjector(h)
        \/ \E c \in BOOLEAN : Restart(c)
        \/ \E c \in BOOLEAN : Tick(c)

Discipline ==
  /\ cur \in Int /\ wstream \in Int /\ sstream \in Int
  /\ state \in {"Init", "Cleared", "Fresh"}
  /\ (wstream = cur) <=> (state # "Cleared")
  /\ sstream <= cur /\ wstream <= cur

THEOREM InitDiscipline == Init => Discipline
BY DEF Init, Discipline

THEOREM StepDiscipline == Discipline /\ [Next]_lvars => Discipline'
<1> SUFFICES ASSUME Discipline, [Next]_lvars PROVE Discipline'
  OBVIOUS
<1>1. CASE NewInjector
  BY <1>1 DEF NewInjector, Discipline
<1>2. CASE \E h \in handles : CloneInjector(h) \/ DropInjector(h)
  BY <1>2 DEF CloneInjector, DropInjector, Discipline
<1>3. CASE \E c \in BOOLEAN : Restart(c)
  BY <1>3 DEF Restart, Discipline
<1>4. CASE \E c \in BOOLEAN : Tick(c)
  BY <1>4 DEF Tick, Discipline
<1>5. CASE UNCHANGED lvars
  BY <1>5 DEF lvars, Discipline
<1> QED
  BY <1>1, <1>2, <1>3, <1>4, <1>5 DEF Next

\* what the code computes, with T the number of live handles of the current stream
Formula(T) == (1 + (IF wstream = cur THEN 1 ELSE 0) + (IF sstream = cur THEN 1 ELSE 0) + T)
              - (IF state = "Cleared" THEN 1 ELSE 2) - (IF sstream = cur THEN 1 ELSE 0)

THEOREM FormulaCorrect == \A T \in Int : Discipline => Formula(T) = T
BY DEF Discipline, Formula
=============================================================================
