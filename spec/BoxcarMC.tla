------------------------------ MODULE BoxcarMC ------------------------------
(***************************************************************************)
(* Bounded instances of Boxcar for exhaustive exploration: two threads,    *)
(* each running a program of up to two operations drawn from OpsA / OpsB;  *)
(* bucket 0 has 2 entries, so four items cross two bucket boundaries.      *)
(* OrdsFromCode is written by the driver from the orderings the real code  *)
(* was observed to use (BoxcarOrd.tla); OrdsDocumented is what the source  *)
(* is meant to say.                                                        *)
(***************************************************************************)
EXTENDS Boxcar, BoxcarOrd

OpsA == {[k |-> "push", v |-> 1], [k |-> "ext", vals |-> <<2, 3, 4>>, rep |-> 3], [k |-> "ext", vals |-> <<2>>, rep |-> 4],
         [k |-> "ext", vals |-> <<2, 3>>, rep |-> 1], [k |-> "pushpanic", v |-> 5]}
OpsB == {[k |-> "push", v |-> 6], [k |-> "get", i |-> 0], [k |-> "get", i |-> 2], [k |-> "count"], [k |-> "ext", vals |-> <<7, 8>>, rep |-> 2]}
Distinct2 == {<<b, c>> \in OpsB \X OpsB : b # c \/ b.k \in {"get", "count"}}
ProgsSmall == {[t \in Threads |-> IF t = 1 THEN <<a>> ELSE bc] : a \in OpsA, bc \in Distinct2}
\* iteration racing with a batch that crosses a bucket boundary and with the lazy allocation of the next bucket
ProgsSnap == {[t \in Threads |-> IF t = 1 THEN <<a>> ELSE <<[k |-> "snap", start |-> st]>> \o tl] :
                 a \in {[k |-> "ext", vals |-> <<2, 3, 4>>, rep |-> 3], [k |-> "push", v |-> 1]}, st \in {0, 1},
                 tl \in {<<>>, <<[k |-> "push", v |-> 6]>>}}
ProgsLarge == {[t \in Threads |-> IF t = 1 THEN <<a, d>> ELSE bc] : a \in OpsA, d \in {[k |-> "push", v |-> 9], [k |-> "get", i |-> 3]}, bc \in Distinct2}
=============================================================================
