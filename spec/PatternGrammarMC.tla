-------------------------- MODULE PatternGrammarMC --------------------------
(***************************************************************************)
(* Exhaustive check of lemmas about the grammar itself on every text of    *)
(* length <= LT over the marker-rich alphabet SigmaP: the round trip       *)
(* through Escape, empty atoms are dropped, markers never survive into a   *)
(* needle unless escaped, reparse-independence is trivial (Parse is a      *)
(* function).  The texts form a tree so that TLC's workers share the work. *)
(***************************************************************************)
EXTENDS PatternGrammar

CONSTANTS SigmaP, LT

VARIABLE ptext
Init == ptext = <<>>
Extend(c) == Len(ptext) < LT /\ ptext' = Append(ptext, c)
Next == \E c \in SigmaP : Extend(c)

InvRoundTrip == RoundTrip(ptext)
InvNoEmptyAtoms == \A case \in {"S", "I", "R"} : \A a \in {Parse(ptext, case, "S")[k] : k \in 1..Len(Parse(ptext, case, "S"))} : a.needle # <<>>
InvAtomCount == Len(Parse(ptext, "R", "N")) <= Len(SplitWords(ptext))
InvNegatedNeverFuzzy == \A k \in 1..Len(Parse(ptext, "R", "N")) : Parse(ptext, "R", "N")[k].neg => Parse(ptext, "R", "N")[k].kind # "F"
InvIgnoreFolded ==
  \A k \in 1..Len(Parse(ptext, "I", "S")) :
     LET a == Parse(ptext, "I", "S")[k] IN a.ic /\ \A j \in 1..Len(a.needle) : Fold(a.needle[j]) = a.needle[j] \/ Fold(Fold(a.needle[j])) # Fold(a.needle[j])
InvSmartCase ==
  \A k \in 1..Len(Parse(ptext, "S", "N")) :
     LET a == Parse(ptext, "S", "N")[k] IN a.ic <=> (\A j \in 1..Len(a.needle) : ~IsUpperChar(a.needle[j]))
=============================================================================
