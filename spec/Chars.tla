------------------------------- MODULE Chars -------------------------------
(***************************************************************************)
(* Character-level semantics used by every matcher specification.          *)
(*                                                                         *)
(* The data columns come from CharDB (environment variable CHARDB, an      *)
(* ndjson file dumped by `nvh chardb` on every check):                     *)
(*   f / n / up : the crate's PUBLIC maps chars::to_lower_case,            *)
(*                chars::normalize, chars::is_upper_case.  By the Matcher  *)
(*                documentation these are the maps a caller must use to    *)
(*                pre-normalise a needle, so they DEFINE "the configured   *)
(*                case folding and Latin normalisation" in C01-C05.        *)
(*                Whether the maps are right is C16 (CharsCheck.tla).      *)
(*   lo/num/al/ws : rustc's char::is_lowercase / is_numeric /              *)
(*                is_alphabetic / is_whitespace (std, not code under test) *)
(* The universe U is lib/universe.txt closed under the two maps.           *)
(***************************************************************************)
EXTENDS Integers, Sequences, FiniteSets, TLC, Json, IOUtils

CharRows == ndJsonDeserialize(IOEnv.CHARDB)
U == {CharRows[i].c : i \in DOMAIN CharRows}
\* TLCEval forces a concrete (hashed) function value instead of a lazily re-evaluated lambda
Row == TLCEval([c \in U |-> CharRows[CHOOSE i \in DOMAIN CharRows : CharRows[i].c = c]])

Fold(c) == Row[c].f            \* simple case folding (public map)
LatinNorm(c) == Row[c].n       \* Latin normalisation (public map)

\* Norm: Latin normalisation first, then case folding, each only if configured.
Norm(c, ic, nz) ==
  LET d == IF nz THEN LatinNorm(c) ELSE c IN IF ic THEN Fold(d) ELSE d

\* SubSeq(.., 1, n) turns the lazily evaluated function into a concrete tuple (O(1) Len and indexing)
NormSeq(s, ic, nz) == SubSeq([k \in 1..Len(s) |-> Norm(s[k], ic, nz)], 1, Len(s))

\* a needle is "already normalised" for a configuration iff Norm fixes each character
Normalised(s, ic, nz) == \A k \in 1..Len(s) : Norm(s[k], ic, nz) = s[k]

IsWhite(c) == Row[c].ws        \* Unicode White_Space

AsciiWhite == {9, 10, 12, 13, 32}
DelimDefault == {47, 44, 58, 59, 124}     \* / , : ; |
DelimPaths == {47}                        \* Config::match_paths() on unix

\* Character classes.  "ws" whitespace, "nw" non-word, "dl" delimiter, "lo" lower,
\* "up" upper, "le" other letter, "nu" number.
Class(c, paths) ==
  IF c < 128 THEN
       IF c >= 97 /\ c <= 122 THEN "lo"
       ELSE IF c >= 65 /\ c <= 90 THEN "up"
       ELSE IF c >= 48 /\ c <= 57 THEN "nu"
       ELSE IF c \in AsciiWhite THEN "ws"
       ELSE IF c \in (IF paths THEN DelimPaths ELSE DelimDefault) THEN "dl"
       ELSE "nw"
  ELSE LET r == Row[c] IN
       IF r.lo THEN "lo"
       ELSE IF r.up THEN "up"
       ELSE IF r.num THEN "nu"
       ELSE IF r.al THEN "le"
       ELSE IF r.ws THEN "ws"
       ELSE "nw"

ClassSeq(s, paths) == SubSeq([k \in 1..Len(s) |-> Class(s[k], paths)], 1, Len(s))

IsWord(k) == k \in {"lo", "up", "le", "nu"}
=============================================================================
