---------------------------- MODULE BoxcarTrace ----------------------------
(***************************************************************************)
(* Trace validation of the injector's item vector at call/return           *)
(* granularity (impl -> spec): C08 (linearizable append-only sequence) and *)
(* the vector-level part of C11 (every value dropped exactly once, the     *)
(* published ones when the vector is dropped).                             *)
(*                                                                         *)
(* A trace file holds many runs of the real boxcar::Vec under the          *)
(* controlled scheduler; each run starts with a "reset" event.  Events are *)
(* totally ordered by their position (the scheduler serialises them).      *)
(* Only "call" / "ret" / "joined" / "end" events matter here; the          *)
(* low-level events are consumed by stuttering steps (they are MemModel's  *)
(* input).  Values are unique per run, so an observed (index, value) pair  *)
(* identifies the operation that wrote it.                                 *)
(*                                                                         *)
(* Abstract state (what a linearizable append-only sequence needs):        *)
(*   started  : calls that have been invoked  [tid, api, seq, vals, n]     *)
(*   finished : calls that have returned      (+ result, return seq)       *)
(*   seen     : (index, value) pairs observed by any lookup                *)
(*   nones    : lookups that returned nothing [idx, callseq]               *)
(*   final    : index -> value read back after all threads were joined     *)
(***************************************************************************)
EXTENDS Integers, Sequences, FiniteSets, TLC, Json, IOUtils

BRec == ndJsonDeserialize(IOEnv.TRACE)

VARIABLES bpos, brun, bstat
bvars == <<bpos, brun, bstat>>

EmptyRun == [id |-> 0, scenario |-> "", pending |-> <<>>, started |-> {}, finished |-> {}, seen |-> {}, nones |-> {},
             counts |-> {}, joined |-> FALSE, final |-> {}, fails |-> {}, allocs |-> {}, exhausted |-> 0, exhausting |-> 0]
\* exhausting / exhausted: sequence number of the call / return of a batch that reported an absurd length and thereby
\* used up the whole index space (0: none)

\* reservation size of a call (indices it takes from the counter), and the values it publishes
Reserve(c) ==
  IF c.api \in {"push", "push_panic", "push_checked"} THEN 1
  ELSE IF c.api = "extend" THEN c.reported
  ELSE IF c.api = "extend_panic" THEN Len(c.vals)
  ELSE 0
Published(c) ==   \* sequence of values that end up visible, in index order
  IF c.api = "push" THEN <<c.v>>
  ELSE IF c.api = "push_checked" THEN (IF c.refused THEN <<>> ELSE <<c.v>>)
  ELSE IF c.api = "extend" THEN SubSeq(c.vals, 1, IF Len(c.vals) < c.reported THEN Len(c.vals) ELSE c.reported)
  ELSE IF c.api = "extend_panic" THEN SubSeq(c.vals, 1, c.at)
  ELSE <<>>
Created(c) ==     \* every value the call was handed
  IF c.api \in {"push", "push_panic", "push_checked"} THEN {c.v}
  ELSE IF c.api \in {"extend", "extend_panic"} THEN {c.vals[k] : k \in 1..Len(c.vals)}
  ELSE {}
SeqToSet(q) == {q[k] : k \in 1..Len(q)}
RECURSIVE SumSet(_)
SumSet(S) == IF S = {} THEN 0 ELSE LET x == CHOOSE y \in S : TRUE IN x[2] + SumSet(S \ {x})

Writers == {"push", "push_panic", "push_checked", "extend", "extend_panic"}
IsPush(c) == c.api = "push" \/ (c.api = "push_checked" /\ ~c.refused)

\* calls (records of `finished`) that had returned before sequence number s
ReturnedBefore(run, s) == {c \in run.finished : c.rseq < s}
StartedBefore(run, s) == {c \in run.started : c.seq < s}

\* the (at most one) writer call that was handed value v
CallOf(run, v) == {c \in run.started : c.api \in Writers /\ v \in Created(c)}

Bad(cond, clause) == IF cond THEN {} ELSE {clause}

\* a lookup that produced value v at index idx, by a call invoked at cseq and returned at rseq
LookupSome(run, idx, v, colsok, rseq) ==
  Bad(colsok, "columns_differ_from_fill_callback")
  \cup Bad(\E c \in StartedBefore(run, rseq) : c.api \in Writers /\ v \in SeqToSet(Published(c)), "value_that_no_push_was_assigned")
  \cup Bad(\A p \in run.seen : p[1] = idx => p[2] = v, "index_changed_value")
  \cup Bad(\A p \in run.seen : p[2] = v => p[1] = idx, "value_at_two_indices")
  \cup Bad(\A c \in run.finished : (IsPush(c) /\ c.idx = idx) => c.v = v, "lookup_differs_from_returned_push")

LookupNone(run, idx, cseq) ==
  Bad(\A c \in ReturnedBefore(run, cseq) : ~(IsPush(c) /\ c.idx = idx), "completed_push_not_visible")

\* what a finished call contributes to the checks
RetFails(run, c, e) ==
  IF c.api = "push" \/ (c.api = "push_checked" /\ ~e.panicked) THEN
       Bad(\A d \in run.finished : IsPush(d) => d.idx # e.idx, "index_handed_out_twice")
       \cup Bad(\A p \in run.seen : p[1] = e.idx => p[2] = c.v, "lookup_differs_from_returned_push")
       \* once a batch has used up the index space every later push is refused (the documented capacity panic)
       \cup Bad(run.exhausted = 0 \/ c.seq < run.exhausted, "push_accepted_after_index_space_exhausted")
  ELSE IF c.api = "push_checked" THEN
       Bad(run.exhausting > 0 /\ run.exhausting < e.seq, "push_refused_although_capacity_left")
  ELSE IF c.api = "extend_huge" THEN
       Bad(e.panicked, "batch_of_absurd_length_accepted")
  ELSE IF c.api = "get" THEN
       (IF ~e.res.some THEN LookupNone(run, c.idx, c.seq)
        ELSE LookupSome(run, c.idx, e.res.v, e.res.cols_ok, e.seq))
  ELSE IF c.api = "count" THEN
       \* never smaller than the number of completed pushes, never more than what has been reserved
       Bad(e.res >= Cardinality({d \in ReturnedBefore(run, c.seq) : IsPush(d)}), "count_below_completed_pushes")
       \cup (IF run.exhausting > 0 THEN {} ELSE Bad(e.res <= SumSet({<<d.seq, Reserve(d)>> : d \in {x \in StartedBefore(run, e.seq) : x.api \in Writers}}), "count_above_reservations"))
       \cup Bad(\A k \in run.counts : (k[1] = c.tid /\ k[3] < c.seq) => k[2] <= e.res, "count_decreased")
  ELSE IF c.api = "snapshot" THEN
       \* snapshot(start) asserts start <= count: a caller that is ahead of the reservations is told so by a panic;
       \* it must not panic once that many indices have certainly been reserved
       IF e.panicked THEN Bad(c.start > SumSet({<<d.seq, Reserve(d)>> : d \in {x \in ReturnedBefore(run, c.seq) : x.api \in Writers}}), "snapshot_panicked")
       ELSE Bad(\A k \in 1..Len(e.items) : e.items[k][1] = c.start + k - 1, "snapshot_indices_not_contiguous")
            \cup UNION { IF ~e.items[k][2].some THEN LookupNone(run, e.items[k][1], c.seq)
                         ELSE LookupSome(run, e.items[k][1], e.items[k][2].v, e.items[k][2].cols_ok, e.seq) : k \in 1..Len(e.items) }
  ELSE IF c.api = "extend" THEN
       \* the iterator-length assertion: panics iff the iterator yields more than it reported
       Bad(e.panicked = (Len(c.vals) > c.reported), "extend_panic_iff_iterator_too_long")
  ELSE IF c.api \in {"push_panic", "extend_panic"} THEN Bad(e.panicked, "fill_panic_swallowed")
  ELSE IF c.api = "mem_balance" THEN
       \* a whole vector (buckets, matcher columns of every published entry, items with or without drop glue) built and
       \* dropped with nothing else going on in the process: the drop gives back every byte
       Bad(e.held_after_drop = 0, "memory_still_held_after_the_vector_was_dropped")
       \cup Bad(e.held_while_alive > 0, "memory_balance_not_measured")
  ELSE {}

\* pairs observed by a returning lookup
NewSeen(c, e) ==
  IF c.api = "get" /\ e.res.some THEN {<<c.idx, e.res.v>>}
  ELSE IF c.api = "snapshot" /\ ~e.panicked THEN {<<e.items[k][1], e.items[k][2].v>> : k \in {j \in 1..Len(e.items) : e.items[j][2].some}}
  ELSE IF c.api = "push" \/ (c.api = "push_checked" /\ ~e.panicked) THEN {<<e.idx, c.v>>}
  ELSE {}

\* end of run: the read-back must be explained by exactly the calls that were made
FinalIdx(run, v) == CHOOSE p \in run.final : p[2] = v
EndFails(run, e) ==
  LET writers == {c \in run.finished : c.api \in Writers}
      total == SumSet({<<c.seq, IF c.api = "extend" /\ c.reported = 0 THEN 0 ELSE Reserve(c)>> : c \in writers})
      pubvals == UNION {SeqToSet(Published(c)) : c \in writers}
      finalvals == {p[2] : p \in run.final} IN
  (IF run.exhausting > 0 THEN {} ELSE Bad(run.lastcount = total, "indices_not_gap_free"))
  \cup Bad(finalvals = pubvals, "published_values_differ_from_calls")
  \cup Bad(Cardinality(run.final) = Cardinality(finalvals), "value_at_two_indices")
  \cup Bad(\A c \in writers : IsPush(c) => <<c.idx, c.v>> \in run.final, "returned_push_not_at_its_index")
  \cup Bad(\A c \in writers : \A k \in 1..Len(Published(c)) - 1 :
            (Published(c)[k] \in finalvals /\ Published(c)[k+1] \in finalvals)
              => FinalIdx(run, Published(c)[k+1])[1] = FinalIdx(run, Published(c)[k])[1] + 1, "batch_not_contiguous_in_order")
  \* lookups that returned nothing although the batch that published the index had already returned
  \cup Bad(\A nn \in run.nones : \A p \in run.final : p[1] = nn[1] =>
            \A c \in writers : (p[2] \in SeqToSet(Published(c)) /\ c.api # "extend_panic") => c.rseq > nn[2], "completed_batch_not_visible")

DropFails(run, e) ==
  LET writers == {c \in run.finished : c.api \in Writers}
      created == UNION {Created(c) : c \in writers}
      finalvals == {p[2] : p \in run.final}
      before == SeqToSet(e.dropped_before)
      byvec == SeqToSet(e.dropped_by_vec) IN
  Bad(Len(e.dropped_before) = Cardinality(before) /\ Len(e.dropped_by_vec) = Cardinality(byvec) /\ before \cap byvec = {}, "value_dropped_twice")
  \cup Bad(before \cap finalvals = {}, "published_value_dropped_while_vector_alive")
  \cup Bad(finalvals \subseteq byvec, "published_value_leaked")
  \cup Bad(byvec \subseteq finalvals, "vector_dropped_unpublished_value")
  \cup Bad(before \cup byvec = created, "value_leaked_or_invented")

Init == bpos = 1 /\ brun = EmptyRun /\ bstat = [events |-> 0, runs |-> 0, calls |-> 0, fails |-> 0, lookups |-> 0]

Report(run, F, e) == IF F = {} THEN TRUE ELSE PrintT(ToJson([ev |-> "JUDGE", run |-> run.id, scenario |-> run.scenario, seq |-> e.seq, viol |-> F]))

Step ==
  /\ bpos <= Len(BRec)
  /\ LET e == BRec[bpos] IN
     /\ bpos' = bpos + 1
     /\ IF e.site = "reset" THEN
             /\ brun' = [EmptyRun EXCEPT !.id = e.run, !.scenario = e.scenario]
             /\ bstat' = [bstat EXCEPT !.events = @ + 1, !.runs = @ + 1]
        ELSE IF e.site = "call" THEN
             LET c == [tid |-> e.tid, api |-> e.api, seq |-> e.seq,
                       v |-> IF "v" \in DOMAIN e THEN e.v ELSE 0,
                       vals |-> IF "vals" \in DOMAIN e THEN e.vals ELSE <<>>,
                       reported |-> IF "reported" \in DOMAIN e THEN e.reported ELSE 0,
                       at |-> IF "at" \in DOMAIN e THEN e.at ELSE 0,
                       idx |-> IF "idx" \in DOMAIN e THEN e.idx ELSE 0,
                       start |-> IF "start" \in DOMAIN e THEN e.start ELSE 0, refused |-> FALSE] IN
             /\ brun' = [brun EXCEPT !.started = @ \cup {c}, !.exhausting = IF e.api = "extend_huge" /\ @ = 0 THEN e.seq ELSE @]
             /\ bstat' = [bstat EXCEPT !.events = @ + 1, !.calls = @ + 1]
        ELSE IF e.site = "ret" THEN
             LET cs == {c \in brun.started : c.tid = e.tid /\ c.api = e.api /\ \A d \in brun.finished : d.seq # c.seq}
                 c == CHOOSE x \in cs : \A y \in cs : x.seq >= y.seq IN
             IF cs = {} THEN /\ Report(brun, {"return_without_call"}, e) /\ brun' = brun /\ bstat' = [bstat EXCEPT !.fails = @ + 1]
             ELSE IF e.api = "drop_vec" THEN
                  LET F == DropFails(brun, e) IN
                  /\ Report(brun, F, e)
                  /\ brun' = brun
                  /\ bstat' = [bstat EXCEPT !.events = @ + 1, !.fails = @ + Cardinality(F)]
             ELSE
                  LET F == RetFails(brun, c, e)
                      d == [c EXCEPT !.idx = IF e.api = "push" \/ (e.api = "push_checked" /\ ~e.panicked) THEN e.idx ELSE c.idx,
                                     !.refused = (e.api = "push_checked" /\ e.panicked)] @@ [rseq |-> e.seq] IN
                  /\ Report(brun, F, e)
                  /\ brun' = [brun EXCEPT !.finished = @ \cup {d},
                                          !.seen = @ \cup NewSeen(c, e),
                                          !.nones = @ \cup (IF c.api = "get" /\ ~e.res.some THEN {<<c.idx, c.seq>>}
                                                            ELSE IF c.api = "snapshot" /\ ~e.panicked
                                                                 THEN {<<e.items[k][1], c.seq>> : k \in {j \in 1..Len(e.items) : ~e.items[j][2].some}}
                                                                 ELSE {}),
                                          !.counts = @ \cup (IF c.api = "count" THEN {<<c.tid, e.res, e.seq>>} ELSE {}),
                                          !.final = IF brun.joined /\ c.api = "get" /\ e.res.some THEN @ \cup {<<c.idx, e.res.v>>} ELSE @,
                                          !.exhausted = IF c.api = "extend_huge" /\ @ = 0 THEN e.seq ELSE @,
                                          !.fails = @ \cup F]
                  /\ bstat' = [bstat EXCEPT !.events = @ + 1, !.fails = @ + Cardinality(F),
                                            !.lookups = @ + (IF c.api \in {"get", "snapshot", "count"} THEN 1 ELSE 0)]
        ELSE IF e.site = "joined" THEN
             /\ brun' = [brun EXCEPT !.joined = TRUE]
             /\ bstat' = [bstat EXCEPT !.events = @ + 1]
        ELSE IF e.site = "end" THEN
             LET cnts == {k \in brun.counts : k[1] = e.tid}
                 last == IF cnts = {} THEN 0 ELSE (CHOOSE k \in cnts : \A j \in cnts : k[3] >= j[3])[2]
                 F == EndFails(brun @@ [lastcount |-> last], e) IN
             /\ Report(brun, F, e)
             /\ brun' = brun
             /\ bstat' = [bstat EXCEPT !.events = @ + 1, !.fails = @ + Cardinality(F)]
        ELSE IF e.site = "abort" THEN
             /\ Report(brun, {"library_crashed"}, e)
             /\ brun' = brun
             /\ bstat' = [bstat EXCEPT !.events = @ + 1, !.fails = @ + 1]
        ELSE IF e.site = "bucket.alloc" THEN
             /\ brun' = [brun EXCEPT !.allocs = @ \cup {<<e.base, e.len>>}]
             /\ bstat' = [bstat EXCEPT !.events = @ + 1]
        ELSE IF e.site = "atomic" /\ e.loc = "bucket" /\ e.op \in {"cas", "store", "swap"} /\ e.ok THEN
             \* a bucket pointer is installed: bucket b must get an allocation of exactly 32 * 2^b entries
             LET F == Bad(\A a \in brun.allocs : a[1] = e.arg => a[2] = 32 * (2 ^ e.b), "bucket_installed_with_wrong_length") IN
             /\ Report(brun, F, e)
             /\ brun' = brun
             /\ bstat' = [bstat EXCEPT !.events = @ + 1, !.fails = @ + Cardinality(F)]
        ELSE \* low-level event: not part of the call/return abstraction
             /\ brun' = brun
             /\ bstat' = [bstat EXCEPT !.events = @ + 1]

Done == bpos > Len(BRec) /\ PrintT(ToJson([ev |-> "DONE", stat |-> bstat])) /\ UNCHANGED bvars
Next == Step \/ Done
=============================================================================
