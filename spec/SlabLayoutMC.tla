---------------------------- MODULE SlabLayoutMC ----------------------------
(***************************************************************************)
(* Exhaustive check of the slab layout arithmetic: for EVERY window size   *)
(* (h haystack characters, n needle characters, both character widths)     *)
(* that passes the guards of MatrixSlab::alloc, the five views lie inside  *)
(* the slab, do not overlap and are aligned.  One chain of states per      *)
(* needle length (h grows by one per step), so TLC's workers share the     *)
(* work.  NeedleLens selects the needle lengths (all of 1..2048 in the     *)
(* thorough tier).                                                         *)
(***************************************************************************)
EXTENDS SlabLayout

CONSTANT NeedleLens
VARIABLES sn, sh
Init == sn \in NeedleLens /\ sh = sn
\* the ASCII width admits the most sizes: walk while it is admissible
Next == Admissible(sh + 1, sn, 1) /\ sh' = sh + 1 /\ sn' = sn

Inv(csz) == Admissible(sh, sn, csz) => (InBounds(sh, sn, csz) /\ Disjoint(sh, sn, csz) /\ Aligned(sh, sn, csz))
LayoutSafeAscii == Inv(1)
LayoutSafeUnicode == Inv(4)
\* a window that is not admissible for ASCII is not admissible for code points either (monotonicity used by the walk)
WidthMonotone == Admissible(sh, sn, 4) => Admissible(sh, sn, 1)
\* every needle length the matrix admits (thorough tier: NeedleLens <- AllNeedleLens)
AllNeedleLens == 1..2048
=============================================================================
