--------------------------- MODULE KnownFindings ---------------------------
(***************************************************************************)
(* Predicates identifying the genuine defects of the pinned tree that are  *)
(* recorded (known_findings.json) rather than repaired.  KnownId(r, x)     *)
(* returns the id of the finding that explains failing clause              *)
(* x = <<property, clause, block>> of record r, or "" if none does.        *)
(* A failure that no predicate explains is a VIOLATION.                    *)
(***************************************************************************)
EXTENDS Fzf

AllNone(b) == \A f \in 1..12 : b.outs[f][1] = -1

\* KF-C01-ascii-hay-codepoint-needle: an ASCII-representation haystack combined with a needle held as code
\* points makes every entry point return None, even when the needle contains only ASCII characters
\* (matcher/src/lib.rs, the `(Utf32Str::Ascii(_), Utf32Str::Unicode(_)) => None` arms).
KfAsciiHayCodepointNeedle(r, x) ==
  LET b == r.blocks[x[3]] IN
  /\ x[1] \in {"C01", "C04", "C05"}
  /\ b.rh = "A" /\ b.rn = "U" /\ AllNone(b)

KnownId(r, x) ==
  IF KfAsciiHayCodepointNeedle(r, x) THEN "KF-C01-ascii-hay-codepoint-needle"
  ELSE ""
=============================================================================
