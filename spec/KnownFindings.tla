--------------------------- MODULE KnownFindings ---------------------------
(***************************************************************************)
(* Predicates identifying the genuine defects of the pinned tree that are  *)
(* recorded (known_findings.json) rather than repaired.  KnownId(r, x)     *)
(* returns the id of the finding that explains failing clause              *)
(* x = <<property, clause, block>> of record r, or "" if none does.        *)
(* A failure that no predicate explains is a VIOLATION.                    *)
(***************************************************************************)
EXTENDS Fzf

\* (KF-C01-ascii-hay-codepoint-needle - every entry point returned None for an ASCII-representation haystack and an
\* all-ASCII needle held as code points - was repaired in the code; a recurrence is a violation.)

\* KF-C04-prefix-bonus-tips-matrix: the matrix keeps one best predecessor per cell although the consecutive
\* bonus depends on how the chunk started, so the plain run can report less than an alignment it has seen
\* (C04 allows that).  With prefer_prefix the bonus of an alignment starting at the very beginning can make
\* that better alignment survive the per-cell choice; the reported score then exceeds the plain run's by
\* more than the prefix bonus although it exceeds ITS OWN plain score (the documented scoring scheme applied
\* to the indices it reports, C03) by at most the bonus.  Signature: the run with the preference reports
\* other indices than the plain run, those indices' plain score is above the plain run's score, and the
\* reported score is within the bonus of that plain score.
KfPrefixBonusTipsMatrix(r, x) ==
  /\ x[1] = "C04" /\ x[2] = "prefer_prefix_bounds"
  /\ LET half == Len(r.blocks) \div 2
         rs(k) == IF r.blocks[k].same = 0 THEN r.blocks[k] ELSE r.blocks[r.blocks[k].same]
         off == rs(x[3] - half).outs[1]
         on == rs(x[3]).outs[1]
         pre == r.pre
         idx(o) == [k \in 1..(Len(o[2]) - Len(pre)) |-> o[2][Len(pre) + k] + 1]
         K == ClassSeq(r.hay, r.paths)
         plain == Clamp16(AlignScore(K, idx(on), r.paths)) IN
     /\ off[1] >= 0 /\ on[1] > off[1] + MaxPrefixBonus
     /\ Len(on[2]) = Len(pre) + Len(r.needle) /\ Len(off[2]) = Len(on[2])
     /\ idx(on) # idx(off)
     /\ plain > off[1]
     /\ on[1] >= plain /\ on[1] <= plain + MaxPrefixBonus

KnownId(r, x) ==
  IF KfPrefixBonusTipsMatrix(r, x) THEN "KF-C04-prefix-bonus-tips-matrix"
  ELSE ""
=============================================================================
