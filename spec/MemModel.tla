------------------------------ MODULE MemModel ------------------------------
(***************************************************************************)
(* C09: happens-before analysis of recorded executions under the C11-style *)
(* memory model fragment the library uses (no fences, no consume, no       *)
(* reliance on SeqCst).                                                    *)
(*                                                                         *)
(* Input: the scheduler's trace -- every atomic operation of the library   *)
(* WITH THE MEMORY ORDERING WRITTEN IN THE SOURCE (the cfg-gated atomic    *)
(* shim forwards and logs it) and every non-atomic access to library-owned *)
(* memory (entry write / read / drop, bucket initialisation / free,        *)
(* matcher scratch slots).  The scheduler serialises the events, but that  *)
(* serialisation contributes NO happens-before edge: only program order,   *)
(* release/acquire pairs (with release sequences continued by RMWs) and    *)
(* the listed axiomatic edges (thread start/join, rayon spawn and          *)
(* fork/join, mutex hand-over) do.  A weakened ordering in the source thus *)
(* shows up as a race here even though x86 would never misbehave.          *)
(*                                                                         *)
(* State: vector clocks.  clk[t] clock of thread t; rel[a] release clock   *)
(* stored at atomic location a; wr[x] clock of the last write of data      *)
(* location x; rd[x] join of the clocks of reads since that write.         *)
(***************************************************************************)
EXTENDS Integers, Sequences, FiniteSets, TLC, Json, IOUtils

MRec == ndJsonDeserialize(IOEnv.TRACE)

VARIABLES mpos, mrun, mstat
mvars == <<mpos, mrun, mstat>>

Tids == 0..15
Zero == [t \in Tids |-> 0]
Join(a, b) == [t \in Tids |-> IF a[t] > b[t] THEN a[t] ELSE b[t]]
Leq(a, b) == \A t \in Tids : a[t] <= b[t]
Tick(c, t) == [c EXCEPT ![t] = @ + 1]
RECURSIVE JoinAll(_)
JoinAll(S) == IF S = {} THEN Zero ELSE LET x == CHOOSE y \in S : TRUE IN Join(x, JoinAll(S \ {x}))

EmptyRun == [id |-> 0, scenario |-> "", clk |-> [t \in Tids |-> Zero], known |-> {}, fork |-> Zero,
             rel |-> <<>>, wr |-> <<>>, rd |-> <<>>, parOpen |-> FALSE, parOwner |-> "", parClk |-> Zero, parJoin |-> Zero]

Has(f, k) == k \in DOMAIN f
Get(f, k) == IF k \in DOMAIN f THEN f[k] ELSE Zero
Put(f, k, v) == [x \in DOMAIN f \cup {k} |-> IF x = k THEN v ELSE f[x]]

Rmws == {"fetch_add", "fetch_sub", "fetch_or", "fetch_and", "swap", "cas"}
Acquires(ord) == ord \in {"acq", "acqrel", "sc"}
Releases(ord) == ord \in {"rel", "acqrel", "sc"}

\* symbolic name of an atomic location
ALoc(e) ==
  IF e.loc = "inflight" THEN <<"inflight", e.vec>>
  ELSE IF e.loc = "bucket" THEN <<"bucket", e.vec, e.b>>
  ELSE IF e.loc = "active" THEN <<"active", e.base, e.i>>
  ELSE <<e.loc, 0>>

\* clock of thread t at its first event: everything the spawning thread did before "start"
ClockOf(run, t) == IF t \in run.known THEN run.clk[t] ELSE Tick(run.fork, t)

Bad(cond, clause) == IF cond THEN {} ELSE {clause}

\* Axiom (Arc): giving up a handle on an item vector is a release on its reference count and the thread that
\* drops the last handle acquires all of them before it frees the buckets.  The release is placed at the
\* event that PRECEDES the real decrement (weaker than reality).
ArcRelease(e) ==
  \/ e.site = "call" /\ e.api \in {"drop_injector", "restart", "drop_nucleo"}
  \/ e.site \in {"tick.snapshot_update"}

\* a non-atomic write / read of data location x by a thread whose clock is c
WriteFails(run, x, c) ==
  Bad(~Has(run.wr, x) \/ Leq(run.wr[x], c), "write_races_with_earlier_write")
  \cup Bad(~Has(run.rd, x) \/ Leq(run.rd[x], c), "write_races_with_earlier_read")
ReadFails(run, x, c) ==
  Bad(Has(run.wr, x), "read_of_never_written_memory")
  \cup (IF Has(run.wr, x) THEN Bad(Leq(run.wr[x], c), "read_races_with_write") ELSE {})

Init == mpos = 1 /\ mrun = EmptyRun /\ mstat = [events |-> 0, runs |-> 0, atomics |-> 0, accesses |-> 0, fails |-> 0, syncs |-> 0]

Report(run, F, e) == IF F = {} THEN TRUE ELSE PrintT(ToJson([ev |-> "JUDGE", run |-> run.id, scenario |-> run.scenario, seq |-> e.seq, viol |-> F, event |-> e]))

Step ==
  /\ mpos <= Len(MRec)
  /\ LET e == MRec[mpos]
         t == e.tid
         c0 == ClockOf(mrun, t)
         \* rayon fork edge: a pool thread working inside an open parallel region starts after the region began
         c1 == IF mrun.parOpen /\ e.role # mrun.parOwner THEN Join(c0, mrun.parClk) ELSE c0
         c == Tick(c1, t)
         base == [mrun EXCEPT !.known = @ \cup {t}] IN
     /\ mpos' = mpos + 1
     /\ IF e.site = "reset" THEN
             /\ mrun' = [EmptyRun EXCEPT !.id = e.run, !.scenario = e.scenario]
             /\ mstat' = [mstat EXCEPT !.events = @ + 1, !.runs = @ + 1]
        ELSE IF e.site = "atomic" THEN
             LET a == ALoc(e)
                 isLoad == e.op = "load" \/ (e.op = "cas" /\ ~e.ok)
                 ord == IF e.op = "cas" /\ ~e.ok THEN e.ordf ELSE e.ord
                 \* an access to an entry's publication flag touches the bucket memory, whose non-atomic
                 \* initialisation must happen-before it
                 F == IF e.loc = "active" THEN ReadFails(mrun, <<"bucketmem", e.base>>, IF Acquires(ord) /\ ~(e.op = "store") THEN Join(c, Get(mrun.rel, a)) ELSE c) ELSE {}
                 cAcq == IF (isLoad \/ e.op \in Rmws) /\ Acquires(ord) /\ Has(mrun.rel, a) THEN Join(c, mrun.rel[a]) ELSE c
                 rel2 == IF e.op = "store" THEN (IF Releases(ord) THEN Put(mrun.rel, a, cAcq) ELSE [x \in DOMAIN mrun.rel \ {a} |-> mrun.rel[x]])
                         ELSE IF e.op \in (Rmws \ {"cas"}) \/ (e.op = "cas" /\ e.ok)
                              THEN (IF Releases(ord) THEN Put(mrun.rel, a, Join(Get(mrun.rel, a), cAcq)) ELSE mrun.rel)
                         ELSE mrun.rel IN
             /\ Report(mrun, F, e)
             /\ mrun' = [base EXCEPT !.clk[t] = cAcq, !.rel = rel2,
                                     !.parJoin = IF mrun.parOpen THEN Join(@, cAcq) ELSE @]
             /\ mstat' = [mstat EXCEPT !.events = @ + 1, !.atomics = @ + 1, !.fails = @ + Cardinality(F),
                                       !.syncs = @ + (IF cAcq # c THEN 1 ELSE 0)]
        ELSE IF e.site \in {"entry.write", "entry.drop"} THEN
             LET x == <<"entry", e.base, e.i>>
                 cc == IF e.site = "entry.drop" THEN Join(c, Get(mrun.rel, <<"arc", 0>>)) ELSE c
                 F == WriteFails(mrun, x, cc) IN
             /\ Report(mrun, F, e)
             /\ mrun' = [base EXCEPT !.clk[t] = cc, !.wr = Put(mrun.wr, x, cc), !.rd = [y \in DOMAIN mrun.rd \ {x} |-> mrun.rd[y]],
                                     !.parJoin = IF mrun.parOpen THEN Join(@, cc) ELSE @]
             /\ mstat' = [mstat EXCEPT !.events = @ + 1, !.accesses = @ + 1, !.fails = @ + Cardinality(F)]
        ELSE IF e.site = "entry.read" THEN
             LET x == <<"entry", e.base, e.i>>  F == ReadFails(mrun, x, c) IN
             /\ Report(mrun, F, e)
             /\ mrun' = [base EXCEPT !.clk[t] = c, !.rd = Put(mrun.rd, x, Join(Get(mrun.rd, x), c)),
                                     !.parJoin = IF mrun.parOpen THEN Join(@, c) ELSE @]
             /\ mstat' = [mstat EXCEPT !.events = @ + 1, !.accesses = @ + 1, !.fails = @ + Cardinality(F)]
        ELSE IF e.site = "bucket.alloc" THEN
             /\ mrun' = [base EXCEPT !.clk[t] = c, !.wr = Put(mrun.wr, <<"bucketmem", e.base>>, c)]
             /\ mstat' = [mstat EXCEPT !.events = @ + 1, !.accesses = @ + 1]
        ELSE IF e.site = "bucket.dealloc" THEN
             LET x == <<"bucketmem", e.base>>
                 \* freeing is a write to the bucket memory and to every entry in it
                 ents == {y \in DOMAIN mrun.wr : y[1] = "entry" /\ y[2] = e.base}
                 cc == Join(c, Get(mrun.rel, <<"arc", 0>>))
                 F == WriteFails(mrun, x, cc)
                      \cup UNION {WriteFails(mrun, y, cc) : y \in ents} IN
             /\ Report(mrun, F, e)
             /\ mrun' = [base EXCEPT !.clk[t] = cc]
             /\ mstat' = [mstat EXCEPT !.events = @ + 1, !.accesses = @ + 1, !.fails = @ + Cardinality(F)]
        ELSE IF e.site = "matcher.use" THEN
             \* the per-thread matcher scratch memory: every use is a write
             LET x == <<"matcher", e.a[1]>>  F == WriteFails(mrun, x, c) IN
             /\ Report(mrun, F, e)
             /\ mrun' = [base EXCEPT !.clk[t] = c, !.wr = Put(mrun.wr, x, c),
                                     !.parJoin = IF mrun.parOpen THEN Join(@, c) ELSE @]
             /\ mstat' = [mstat EXCEPT !.events = @ + 1, !.accesses = @ + 1, !.fails = @ + Cardinality(F)]
        ELSE IF e.site = "start" THEN          \* harness threads are spawned after this point
             /\ mrun' = [base EXCEPT !.clk[t] = c, !.fork = c]
             /\ mstat' = [mstat EXCEPT !.events = @ + 1]
        ELSE IF e.site = "spawn" THEN          \* a harness thread is spawned after this point
             /\ mrun' = [base EXCEPT !.clk[t] = c, !.fork = c]
             /\ mstat' = [mstat EXCEPT !.events = @ + 1]
        ELSE IF ArcRelease(e) THEN             \* a handle on an item vector is given up at or after this point
             /\ mrun' = [base EXCEPT !.clk[t] = c, !.rel = Put(mrun.rel, <<"arc", 0>>, Join(Get(mrun.rel, <<"arc", 0>>), c))]
             /\ mstat' = [mstat EXCEPT !.events = @ + 1]
        ELSE IF e.site = "joined" THEN         \* all harness threads have been joined
             /\ mrun' = [base EXCEPT !.clk[t] = JoinAll({ClockOf(mrun, v) : v \in mrun.known} \cup {c})]
             /\ mstat' = [mstat EXCEPT !.events = @ + 1]
        ELSE IF e.site = "tick.spawn" THEN     \* rayon spawn: the run starts after this point
             /\ mrun' = [base EXCEPT !.clk[t] = c, !.rel = Put(Put(mrun.rel, <<"spawn", 0>>, c), <<"arc", 0>>, Join(Get(mrun.rel, <<"arc", 0>>), c))]
             /\ mstat' = [mstat EXCEPT !.events = @ + 1]
        ELSE IF e.site = "run.begin" THEN
             /\ mrun' = [base EXCEPT !.clk[t] = Join(c, Get(mrun.rel, <<"spawn", 0>>)), !.parOwner = e.role]
             /\ mstat' = [mstat EXCEPT !.events = @ + 1, !.syncs = @ + 1]
        ELSE IF e.site = "run.end" THEN        \* the worker mutex is released after this point ...
             /\ mrun' = [base EXCEPT !.clk[t] = c, !.rel = Put(mrun.rel, <<"workerlock", 0>>, c)]
             /\ mstat' = [mstat EXCEPT !.events = @ + 1]
        ELSE IF e.site = "drop.lock" /\ e.a[1] = 0 THEN   \* Nucleo::drop waits for the worker lock as well
             /\ mrun' = [base EXCEPT !.clk[t] = Join(c, Get(mrun.rel, <<"workerlock", 0>>))]
             /\ mstat' = [mstat EXCEPT !.events = @ + 1, !.syncs = @ + 1]
        ELSE IF e.site = "tick.locked" THEN    \* ... and acquired before this one
             /\ mrun' = [base EXCEPT !.clk[t] = Join(c, Get(mrun.rel, <<"workerlock", 0>>))]
             /\ mstat' = [mstat EXCEPT !.events = @ + 1, !.syncs = @ + 1]
        ELSE IF e.site \in {"par.scan", "par.rescore", "par.sort"} THEN
             IF e.a[1] = 1 THEN                \* fork: pool threads inside the region start after this point
                  /\ mrun' = [base EXCEPT !.clk[t] = c, !.parOpen = TRUE, !.parClk = c, !.parJoin = c, !.parOwner = e.role]
                  /\ mstat' = [mstat EXCEPT !.events = @ + 1]
             ELSE                              \* join: everything done inside the region happened before this point
                  /\ mrun' = [base EXCEPT !.clk[t] = Join(c, mrun.parJoin), !.parOpen = FALSE]
                  /\ mstat' = [mstat EXCEPT !.events = @ + 1, !.syncs = @ + 1]
        ELSE \* call / ret / other hooks: program order only
             /\ mrun' = [base EXCEPT !.clk[t] = c]
             /\ mstat' = [mstat EXCEPT !.events = @ + 1]

Done == mpos > Len(MRec) /\ PrintT(ToJson([ev |-> "DONE", stat |-> mstat])) /\ UNCHANGED mvars
Next == Step \/ Done
=============================================================================
