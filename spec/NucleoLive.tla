----------------------------- MODULE NucleoLive -----------------------------
(***************************************************************************)
(* C13 as a liveness property of the protocol model: under weak fairness   *)
(* of the worker, of the closure tails and of the injector threads, a      *)
(* tick that reported running = true is always followed by a notification  *)
(* (or by the user's own next edit / restart, which makes the event loop   *)
(* tick anyway).  The safety form (NoLostWakeup: no quiescent state with   *)
(* an undischarged promise) is what the bigger instances check; this       *)
(* module checks the temporal form on a small instance, without a state    *)
(* constraint.                                                             *)
(***************************************************************************)
EXTENDS NucleoMC

WorkerNext == RunBegin \/ ResetItem \/ ResetDone \/ TScanStart \/ TScanItem
              \/ RescoreCheck \/ (\E k \in 1..N : RescoreOne(k) \/ RescorePh({k})) \/ RescoreDone
              \/ RetryItem \/ RetryDone \/ (\E it \in Items : ScanItem(it)) \/ ScanDone \/ SortStep \/ RunEnd
TailNext == NRead \/ Notify
WriterNext == \E s \in Streams : (\E it \in Items : Publish(s, it) \/ NotifyOne(s, it)) \/ NotifyBatch(s)
UiStep == TickCancel \/ TickLock \/ TickTryFail \/ TickArm \/ TickRetryOk \/ TickRetryFail \/ TickLocked \/ TickStoreNotify \/ TickSpawn

FairSpec == Spec /\ WF_vars(WorkerNext) /\ WF_vars(TailNext) /\ WF_vars(WriterNext) /\ WF_vars(UiStep)

Waiting == promise /\ ui.pc = "idle" /\ ~notifyPending /\ ~wake
EventuallyNotified == Waiting ~> (notifyPending \/ wake \/ ~promise)
=============================================================================
