---------------------------- MODULE PatternTrace ----------------------------
(***************************************************************************)
(* Trace validation of the real pattern parser (impl -> spec), C14.        *)
(* Each line of TRACE is one API call with the atoms the code produced;    *)
(* the action ParseCall consumes it and demands that the atoms equal the   *)
(* value of the grammar function of PatternGrammar.tla for the call's      *)
(* LAST text (a reparse history must leave no trace).                      *)
(***************************************************************************)
EXTENDS PatternGrammar

PRec == ndJsonDeserialize(IOEnv.TRACE)

VARIABLES ppos, pstat
pvars == <<ppos, pstat>>

Expected(r) ==
  IF r.api = "parse" THEN Parse(r.text, r.case, r.norm)
  ELSE IF r.api = "new" THEN ParseNew(r.text, r.kind, r.case, r.norm)
  ELSE IF r.api = "atom_parse" THEN <<ParseAtom(r.text, r.case, r.norm)>>
  ELSE IF r.api = "atom_new" THEN <<NewAtom(r.text, r.kind, TRUE, r.case, r.norm)>>
  ELSE <<NewAtom(r.text, r.kind, FALSE, r.case, r.norm)>>

Observed(r) == [k \in 1..Len(r.atoms) |->
                  [needle |-> r.atoms[k].needle, kind |-> r.atoms[k].kind, neg |-> r.atoms[k].neg,
                   ic |-> r.atoms[k].ic, nz |-> r.atoms[k].nz]]

\* which clause of the property fails (for the report); empty = record accepted
Fails(r) ==
  LET e == Expected(r)  o == Observed(r) IN
  IF r.panic THEN {"panic"}
  ELSE IF Len(e) # Len(o) THEN {"atom_count"}
  ELSE UNION { (IF e[k].needle = o[k].needle THEN {} ELSE {"needle"})
               \cup (IF e[k].kind = o[k].kind THEN {} ELSE {"kind"})
               \cup (IF e[k].neg = o[k].neg THEN {} ELSE {"negative"})
               \cup (IF e[k].ic = o[k].ic THEN {} ELSE {"ignore_case"})
               \cup (IF e[k].nz = o[k].nz THEN {} ELSE {"normalize"}) : k \in 1..Len(e) }

Init == ppos = 1 /\ pstat = [records |-> 0, fails |-> 0, atoms |-> 0, histories |-> 0]

ParseCall ==
  /\ ppos <= Len(PRec)
  /\ LET r == PRec[ppos]  F == Fails(r) IN
     /\ IF F = {} THEN TRUE
        ELSE PrintT(ToJson([ev |-> "JUDGE", id |-> r.id, viol |-> F, expected |-> Expected(r)]))
     /\ pstat' = [records |-> pstat.records + 1, fails |-> pstat.fails + (IF F = {} THEN 0 ELSE 1),
                  atoms |-> pstat.atoms + Len(r.atoms), histories |-> pstat.histories + (IF r.hist > 0 THEN 1 ELSE 0)]
  /\ ppos' = ppos + 1

Done == ppos > Len(PRec) /\ PrintT(ToJson([ev |-> "DONE", stat |-> pstat])) /\ UNCHANGED pvars
Next == ParseCall \/ Done
=============================================================================
