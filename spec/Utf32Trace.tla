----------------------------- MODULE Utf32Trace -----------------------------
(***************************************************************************)
(* Trace validation of string conversion (impl -> spec), C17.  One record  *)
(* = one source string with the result of every constructor and of len /   *)
(* get / chars (both directions) / Display / every slice form on it.       *)
(***************************************************************************)
EXTENDS Utf32, TLC, Json, IOUtils

URec == ndJsonDeserialize(IOEnv.TRACE)
VARIABLES upos, ustat
uvars == <<upos, ustat>>

Bad(cond, clause) == IF cond THEN {} ELSE {clause}

Fails(r) ==
  LET e == Convert(r.s)  n == Len(e.chars) IN
  IF r.panic THEN {"panic"} ELSE
  UNION { Bad(r.ctors[k].repr = e.repr, "repr_" \o r.ctors[k].name)
          \cup Bad(r.ctors[k].chars = e.chars, "content_" \o r.ctors[k].name) : k \in 1..Len(r.ctors) }
  \cup Bad(r.len = n, "len")
  \cup Bad(r.get = e.chars, "get")
  \cup Bad(r.fwd = e.chars, "chars_forward")
  \cup Bad(r.rev = Rev(e.chars), "chars_backward")
  \cup Bad(r.display = e.chars, "display")
  \cup Bad(r.nth = e.chars, "chars_nth")
  \cup Bad(r.nth_back = Rev(e.chars), "chars_nth_back")
  \cup Bad(r.rev_skip = Rev(e.chars), "chars_rev_skip")
  \cup Bad(r.alt = [k \in 1..n |-> IF k % 2 = 1 THEN e.chars[(k + 1) \div 2] ELSE e.chars[n + 1 - (k \div 2)]], "chars_alternating_ends")
  \cup Bad(r.count = n, "chars_count")
  \cup Bad(r.last = (IF n = 0 THEN -1 ELSE e.chars[n]), "chars_last")
  \cup Bad(r.past_end, "chars_past_end")
  \cup UNION { Bad(r.slices[k].b <= n /\ r.slices[k].a <= r.slices[k].b
                   /\ r.slices[k].chars = SubSeq(e.chars, r.slices[k].a + 1, r.slices[k].b)
                   /\ r.slices[k].repr = e.repr, "slice_" \o r.slices[k].form) : k \in 1..Len(r.slices) }

Init == upos = 1 /\ ustat = [records |-> 0, fails |-> 0, multi |-> 0, slices |-> 0]

ConvertCall ==
  /\ upos <= Len(URec)
  /\ LET r == URec[upos]  F == Fails(r) IN
     /\ IF F = {} THEN TRUE ELSE PrintT(ToJson([ev |-> "JUDGE", id |-> r.id, viol |-> F, expected |-> Convert(r.s)]))
     /\ ustat' = [records |-> ustat.records + 1, fails |-> ustat.fails + (IF F = {} THEN 0 ELSE 1),
                  multi |-> ustat.multi + (IF Len(Convert(r.s).chars) < Len(r.s) THEN 1 ELSE 0),
                  slices |-> ustat.slices + Len(r.slices)]
  /\ upos' = upos + 1

Done == upos > Len(URec) /\ PrintT(ToJson([ev |-> "DONE", stat |-> ustat])) /\ UNCHANGED uvars
Next == ConvertCall \/ Done
=============================================================================
