---------------------------- MODULE LifecycleGen ----------------------------
(***************************************************************************)
(* Model-based test generation (spec -> impl) from Lifecycle: TLC explores *)
(* the model exhaustively; for EVERY transition it generates, the path     *)
(* that led to the source state plus the transition is printed as one      *)
(* script (`hist` is hidden from the fingerprint by the VIEW, so each      *)
(* distinct model state is expanded once).  The harness replays every      *)
(* script on a real Nucleo and LifecycleTrace validates the replays.       *)
(***************************************************************************)
EXTENDS Lifecycle, Json

VARIABLE hist
gvars == <<cur, wstream, sstream, state, handles, nexth, pending, pendcur, hist>>

GInit == Init /\ hist = <<>>

Emit(op, arg) ==
  /\ hist' = Append(hist, [op |-> op, arg |-> arg])
  /\ PrintT(ToJson([ev |-> "SCRIPT", ops |-> hist']))

GNext == \/ NewInjector /\ Emit("new", 0)
         \/ \E h \in Live : (CloneInjector(h) /\ Emit("clone", h)) \/ (DropInjector(h) /\ Emit("drop", h))
         \/ \E c \in BOOLEAN : Restart(c) /\ Emit("restart", IF c THEN 1 ELSE 0)
         \/ \E c \in BOOLEAN : Tick(c) /\ Emit("tick", IF c THEN 1 ELSE 0)

GView == lvars
=============================================================================
