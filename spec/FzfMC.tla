------------------------------- MODULE FzfMC -------------------------------
(***************************************************************************)
(* Exhaustive check of the specification's own lemmas (Fzf.tla) on every   *)
(* (haystack, needle, bonus configuration) with |haystack| <= LH and       *)
(* |needle| <= LN over the class-covering alphabet Sigma.  Each haystack   *)
(* is a state; the lemmas (for all needles) are invariants.  This is what makes    *)
(* the oracle trustworthy before MatcherTrace uses it to judge the code:   *)
(*   - the three deciders (alignment set, greedy scan, recurrence) agree,   *)
(*   - the recurrence never exceeds the brute-force optimum and equals it  *)
(*     for one-character needles (so C04's interval is never empty),       *)
(*   - the greedy alignment is an alignment, a substring occurrence is an  *)
(*     alignment, prefix/postfix/exact positions are occurrences.          *)
(***************************************************************************)
EXTENDS Fzf

CONSTANTS Sigma, LH, LN

VARIABLES mhay, mpaths
mvars == <<mhay, mpaths>>

SigmaN == {Norm(c, TRUE, TRUE) : c \in Sigma}
Needles == UNION {[1..m -> SigmaN] : m \in 1..LN}

\* The haystacks form a tree (one Extend step appends one symbol) so that TLC's workers share the work;
\* every invariant quantifies over all needles.
Init == mhay = <<>> /\ mpaths \in BOOLEAN
Extend(c) == Len(mhay) < LH /\ mhay' = Append(mhay, c) /\ UNCHANGED mpaths
Next == \E c \in Sigma : Extend(c)

N == NormSeq(mhay, TRUE, TRUE)
K == ClassSeq(mhay, mpaths)

InvSubseqIffAligns == \A nd \in Needles : LemmaSubseqIffAligns(N, nd)
InvNaiveBelowBest == \A nd \in Needles : LemmaNaiveBelowBest(N, K, nd, mpaths)
InvNaiveDecides == \A nd \in Needles : LemmaNaiveDecides(N, K, nd, mpaths)
InvOneChar == \A nd \in Needles : LemmaOneChar(N, K, nd, mpaths)
InvGreedyIsAlign == \A nd \in Needles : LemmaGreedyIsAlign(N, nd)
InvGreedyScoreBelowBest ==
  \A nd \in Needles : IsSubseq(nd, N) =>
     AlignScore(K, GreedyFrom(N, nd, 1, 1), mpaths) <= BestScore(N, K, nd, mpaths)
InvSubstringIsAlign ==
  \A nd \in Needles :
  LET p == SubstringPos(N, K, nd, mpaths) IN
  /\ (p > 0) <=> (Occurrences(N, nd) # {})
  /\ p > 0 => /\ [k \in 1..Len(nd) |-> p + k - 1] \in Aligns(N, nd, 1)
              /\ \A q \in Occurrences(N, nd) :
                    BonusAt(K, q, mpaths) < BonusAt(K, p, mpaths) \/ (BonusAt(K, q, mpaths) = BonusAt(K, p, mpaths) /\ q >= p)
InvAnchoredAreOccurrences ==
  \A nd \in Needles :
  /\ PrefixPos(N, mhay, nd) \in Occurrences(N, nd) \cup {0}
  /\ PostfixPos(N, mhay, nd) \in Occurrences(N, nd) \cup {0}
  /\ ExactPos(N, mhay, nd) \in Occurrences(N, nd) \cup {0}
  /\ ExactPos(N, mhay, nd) > 0 =>
        /\ PrefixPos(N, mhay, nd) = ExactPos(N, mhay, nd)
        /\ PostfixPos(N, mhay, nd) = ExactPos(N, mhay, nd)
InvBonusRange == \A p \in 1..Len(N) : BonusAt(K, p, mpaths) \in 0..MaxBonus(mpaths)
=============================================================================
