CONSTANTS
  SigmaG = {97, 13, 10, 9, 769, 8205, 2307, 1536, 4352, 4449, 4520, 44032, 44033, 127465, 127466, 128512, 10084, 2325, 2359, 2381}
  LG = 4
INIT Init
NEXT Next
INVARIANTS InvFirst InvIncreasing InvCrLf InvBreakAfterControl InvBreakBeforeControl InvNoBreakBeforeExtend InvNoBreakAfterPrepend InvOtherOther InvHeads
CHECK_DEADLOCK FALSE
