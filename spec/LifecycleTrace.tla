--------------------------- MODULE LifecycleTrace ---------------------------
(***************************************************************************)
(* Validates the replays of the TLC-generated lifecycle scripts on the     *)
(* real Nucleo (spec -> impl -> spec): every recorded step must be the     *)
(* corresponding Lifecycle action, and the value active_injectors()        *)
(* returned after it must be the number of live handles of the current     *)
(* stream in the model's successor state; at the end of every script all   *)
(* created items must have been dropped exactly once.                      *)
(***************************************************************************)
EXTENDS Lifecycle, Json, IOUtils

LRec == ndJsonDeserialize(IOEnv.TRACE)

VARIABLES lpos, lstep, lstat
tvars == <<cur, wstream, sstream, state, handles, nexth, pending, pendcur, lpos, lstep, lstat>>

TInit == Init /\ lpos = 1 /\ lstep = 1 /\ lstat = [scripts |-> 0, steps |-> 0, fails |-> 0]

Rec == LRec[lpos]
Op == Rec.steps[lstep]

ModelStep ==
  \/ Op.op = "new" /\ NewInjector
  \/ Op.op = "clone" /\ CloneInjector(Op.arg)
  \/ Op.op = "drop" /\ DropInjector(Op.arg)
  \/ Op.op = "restart" /\ Restart(Op.arg = 1)
  \/ Op.op = "tick" /\ Tick(Op.arg = 1)

ReplayStep ==
  /\ lpos <= Len(LRec) /\ lstep <= Len(Rec.steps)
  /\ ModelStep
  /\ LET ok == Op.obs = ActiveTruth' IN
     /\ IF ok THEN TRUE ELSE PrintT(ToJson([ev |-> "JUDGE", id |-> Rec.id, step |-> lstep, viol |-> {"active_injectors_differs_from_model"},
                                               observed |-> Op.obs, expected |-> ActiveTruth']))
     /\ lstat' = [lstat EXCEPT !.steps = @ + 1, !.fails = @ + (IF ok THEN 0 ELSE 1)]
  /\ lstep' = lstep + 1 /\ lpos' = lpos

NextScript ==
  /\ lpos <= Len(LRec) /\ lstep > Len(Rec.steps)
  /\ LET ok == Rec.created = Rec.dropped IN
     /\ IF ok THEN TRUE ELSE PrintT(ToJson([ev |-> "JUDGE", id |-> Rec.id, step |-> 0, viol |-> {"items_not_dropped_exactly_once_when_unreachable"},
                                               observed |-> Rec.dropped, expected |-> Rec.created]))
     /\ lstat' = [lstat EXCEPT !.scripts = @ + 1, !.fails = @ + (IF ok THEN 0 ELSE 1)]
  /\ lpos' = lpos + 1 /\ lstep' = 1
  /\ cur' = 0 /\ wstream' = 0 /\ sstream' = 0 /\ state' = "Init" /\ handles' = {} /\ nexth' = 1 /\ pending' = FALSE /\ pendcur' = FALSE

TDone == lpos > Len(LRec) /\ PrintT(ToJson([ev |-> "DONE", stat |-> lstat])) /\ UNCHANGED tvars
TNext == ReplayStep \/ NextScript \/ TDone
\* every script line must be consumed: a step the model cannot take (MODEL-DRIFT) stops the trace early
=============================================================================
