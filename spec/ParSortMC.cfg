CONSTANTS LQ = 5
INIT Init
NEXT Next
INVARIANTS InvUniqueSortedOrder InvIrreflexive InvAsymmetric InvTransitive InvIncomparabilityTransitive
CHECK_DEADLOCK FALSE
