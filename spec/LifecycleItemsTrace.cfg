CONSTANTS MaxHandles = 10
          MaxRestarts = 7
          MaxCreated = 100
          MaxPush = 100
INIT TInit
NEXT TNext
CHECK_DEADLOCK FALSE
