---------------------------- MODULE NucleoTrace ----------------------------
(***************************************************************************)
(* Trace validation of the real `Nucleo` (impl -> spec): property monitors *)
(* for C06, C07, C11 (handle level), C12, C13, C19, C20 over executions of *)
(* UI thread, injector threads and worker pool recorded under the          *)
(* controlled scheduler.  Events are totally ordered by position.          *)
(*                                                                         *)
(* The monitors speak only about observable behaviour: API calls and       *)
(* returns, notify calls, the snapshot projection dumped after every tick  *)
(* (item count, pattern, matches with the item read through the SAFE       *)
(* accessor), drops.  The reference scores of every (pattern, item) pair   *)
(* come from the run's header (computed by the harness with a fresh        *)
(* matcher: C06/C07 are stated relative to "the pattern's score").         *)
(*                                                                         *)
(* Abstract state per run:                                                 *)
(*   cur        current stream number (restart increments it)              *)
(*   pat        current pattern of the matcher (last reparse)              *)
(*   started / finished   injector calls [tid, api, seq, vals, stream]     *)
(*   handles    live injector handles h -> stream;  dropping: drop begun   *)
(*   dumps      last snapshot projection, and the one before the last      *)
(*              restart                                                    *)
(*   ticks      pending / last tick with its status                        *)
(***************************************************************************)
EXTENDS Integers, Sequences, FiniteSets, TLC, Json, IOUtils

NRec == ndJsonDeserialize(IOEnv.TRACE)

VARIABLES npos, nrun, nstat
nvars == <<npos, nrun, nstat>>

EmptyDump == [count |-> 0, pat |-> 0, matches |-> <<>>, seq |-> 0]
EmptyRun ==
  [id |-> 0, scenario |-> "", items |-> <<>>, cur |-> 0, pat |-> 0, started |-> {}, finished |-> {},
   handles |-> {}, dropping |-> {}, lastDump |-> EmptyDump, preRestart |-> EmptyDump, restartSeq |-> 0, restartClear |-> FALSE,
   updatedSince |-> TRUE, tick |-> [seq |-> 0, pat |-> 0, stream |-> 0, before |-> EmptyDump], lastTick |-> [seq |-> 0, rseq |-> 0, running |-> FALSE, changed |-> FALSE], wokenSeq |-> 0,
   pendingClear |-> FALSE, cloneStream |-> 0, obsSeq |-> <<>>, gone |-> {}, updSinceDump |-> FALSE, snLoads |-> {}, snArms |-> {}, tryFails |-> {}, runEnds |-> {}, spawned |-> 0, finishedRuns |-> 0, outstandingAtDrop |-> 0, lastSite |-> <<>>, notifies |-> {}, stores |-> {}, baseStream |-> <<>>, dropsSeen |-> {}, nucleoDropping |-> FALSE, aborted |-> FALSE, quiescent |-> FALSE]

SeqToSet(q) == {q[k] : k \in 1..Len(q)}
Bad(cond, clause) == IF cond THEN {} ELSE {clause}

\* ---- the header's reference data ------------------------------------------------------------------
ItemRec(run, v) == run.items[CHOOSE k \in 1..Len(run.items) : run.items[k].v = v]
Known(run, v) == \E k \in 1..Len(run.items) : run.items[k].v = v
ScoreOf(run, p, v) == ItemRec(run, v).scores[p + 1]        \* -1 = no match
LenOf(run, v) == ItemRec(run, v).len
StreamOf(v) == v \div 1000                                 \* item ids carry their stream number

Vals(c) == IF c.api = "push" THEN {c.v} ELSE SeqToSet(c.vals)
StartedVals(run, s, before) == UNION {Vals(c) : c \in {x \in run.started : x.stream = s /\ x.seq < before}}
FinishedVals(run, s, before) == UNION {Vals(c) : c \in {x \in run.finished : x.stream = s /\ x.rseq < before}}

\* ---- C06: one snapshot projection --------------------------------------------------------------------
\* the worker's order: score descending, total length ascending, index ascending
Before(run, a, b) ==   \* a, b = <<idx, score, v>>
  IF a[2] # b[2] THEN a[2] > b[2]
  ELSE IF LenOf(run, a[3]) # LenOf(run, b[3]) THEN LenOf(run, a[3]) < LenOf(run, b[3])
  ELSE a[1] < b[1]

DumpStream(d) == IF Len(d.matches) = 0 THEN -1 ELSE StreamOf(d.matches[1][3])

SnapshotFails(run, d, s) ==   \* d dumped at sequence number s
  LET m == d.matches  n == Len(m) IN
  Bad(\A k \in 1..n : m[k][3] >= 0 /\ m[k][1] >= 0, "match_refers_to_uninitialised_item")
  \cup (IF \E k \in 1..n : m[k][3] < 0 \/ m[k][1] < 0 \/ ~Known(run, m[k][3]) THEN {}
        ELSE
          Bad(d.pat >= 0, "snapshot_pattern_unknown")
          \cup Bad(\A j, k \in 1..n : j # k => (m[j][1] # m[k][1] /\ m[j][3] # m[k][3]), "item_appears_twice")
          \* the same after a restart: bookkeeping of the old stream leaked into the new one
          \cup (IF run.restartSeq > 0 THEN Bad(\A j, k \in 1..n : j # k => (m[j][1] # m[k][1] /\ m[j][3] # m[k][3]), "item_appears_twice_after_restart") ELSE {})
          \cup Bad(\A k \in 1..n : StreamOf(m[k][3]) = StreamOf(m[1][3]), "streams_mixed_in_one_snapshot")
          \cup Bad(\A k \in 1..n : m[k][3] \in StartedVals(run, StreamOf(m[k][3]), s), "match_for_item_never_injected")
          \cup Bad(\A k \in 1..n : \A c \in run.finished : (c.api = "push" /\ c.v = m[k][3]) => c.idx = m[k][1], "match_index_differs_from_push_index")
          \cup (IF d.pat < 0 THEN {} ELSE
                  Bad(\A k \in 1..n : ScoreOf(run, d.pat, m[k][3]) = m[k][2] /\ m[k][2] >= 0, "score_differs_from_pattern_score")
                  \cup Bad(\A k \in 1..n - 1 : IF d.pat = 0 THEN m[k][1] < m[k+1][1] ELSE Before(run, m[k], m[k+1]), "matches_out_of_order")
                  \cup Bad(n <= d.count, "more_matches_than_items")
                  \* the processed set has d.count elements of which exactly the n listed ones match: there must be
                  \* enough injected items of that stream that do not match to fill it up
                  \cup (IF n = 0 THEN {} ELSE
                        LET st == StreamOf(m[1][3])
                            nonmatching == {v \in StartedVals(run, st, s) : ScoreOf(run, d.pat, v) < 0} IN
                        Bad(d.count - n <= Cardinality(nonmatching), "item_count_exceeds_processed_items"))))

\* ---- C07: the from-scratch result at quiescence -------------------------------------------------------
FromScratchFails(run, d, s) ==
  LET all == FinishedVals(run, run.cur, s)
      want == {v \in all : ScoreOf(run, run.pat, v) >= 0}
      got == {d.matches[k][3] : k \in 1..Len(d.matches)} IN
  Bad(d.pat = run.pat, "quiescent_snapshot_has_stale_pattern")
  \cup Bad(d.count = Cardinality(all), "quiescent_item_count_differs_from_injected")
  \cup Bad(got = want, "quiescent_matches_differ_from_scratch")
  \* "same order": the documented order is a strict total order on real matches (ParSortProof), so equal sets listed in
  \* that order are equal sequences; for the empty pattern the order is insertion order
  \cup (LET m == d.matches  n == Len(m) IN
        IF d.pat < 0 \/ \E k \in 1..n : m[k][3] < 0 \/ m[k][1] < 0 \/ ~Known(run, m[k][3]) THEN {}
        ELSE Bad(\A k \in 1..n - 1 : IF d.pat = 0 THEN m[k][1] < m[k+1][1] ELSE Before(run, m[k], m[k+1]),
                 "quiescent_order_differs_from_scratch"))

\* ---- C12 ------------------------------------------------------------------------------------------------
RestartFails(run, d, s) ==
  LET ds == DumpStream(d) IN
  \* with clear_snapshot the snapshot is empty immediately (until a run over the new stream completed)
  (IF run.restartClear /\ ~run.updatedSince /\ run.restartSeq > 0
   THEN Bad(d.count = 0 /\ Len(d.matches) = 0, "snapshot_not_empty_after_restart_clear") ELSE {})
  \* without it the snapshot stays exactly as it was
  \cup (IF ~run.restartClear /\ ~run.updatedSince /\ run.restartSeq > 0
        THEN Bad(d.count = run.preRestart.count /\ d.matches = run.preRestart.matches /\ d.pat = run.preRestart.pat, "snapshot_changed_after_restart_before_new_run") ELSE {})
  \* items of an earlier stream may only be visible in a snapshot that has not been updated since the restart
  \cup Bad(ds < 0 \/ ds = run.cur \/ (~run.updatedSince /\ ~run.restartClear), "old_stream_item_in_snapshot_of_new_stream")
  \cup (IF run.updatedSince /\ run.restartSeq > 0
        THEN Bad(d.count <= Cardinality(StartedVals(run, run.cur, s)), "item_count_includes_old_stream") ELSE {})

\* ---- C19 ------------------------------------------------------------------------------------------------
SameSnapshot(a, b) == a.count = b.count /\ a.matches = b.matches /\ a.pat = b.pat
StatusFails(run, d, s) ==   \* d = the dump right after the tick described by run.lastTick / run.tick
  (IF ~run.lastTick.changed THEN Bad(SameSnapshot(d, run.tick.before), "changed_false_but_snapshot_differs") ELSE {})
  \cup (IF ~run.lastTick.running
        THEN Bad(d.count >= Cardinality(FinishedVals(run, run.cur, run.tick.seq)), "running_false_but_completed_push_missing")
             \cup Bad(d.pat = run.tick.pat, "running_false_but_pattern_stale")
        ELSE {})

\* ---- C20 ------------------------------------------------------------------------------------------------
\* n was read by the observing call of thread tid at some moment between its invocation (run.obsSeq[tid]) and now:
\* handles whose drop overlaps that window may or may not have been counted
ActiveFails(run, n, tid) ==
  LET since == IF tid \in DOMAIN run.obsSeq THEN run.obsSeq[tid] ELSE 0
      sure == {h \in run.handles : h[2] = run.cur /\ h[1] \notin run.dropping}
      maybe == {h \in run.handles : h[2] = run.cur} \cup {<<g[1], g[2]>> : g \in {x \in run.gone : x[2] = run.cur /\ x[3] > since}} IN
  IF n < 0 THEN {} ELSE Bad(Cardinality(sure) <= n /\ n <= Cardinality(maybe), "active_injectors_wrong")

\* ---- C13 ------------------------------------------------------------------------------------------------
EndFails(run, e) ==
  IF run.aborted THEN {} ELSE
  \* a user who edits the pattern or restarts after that tick ticks again on its own account (and thereby cancels the
  \* run the tick had promised a notification for): the promise only stands while the user just waits
  \* ... and it is about a run that was allowed to finish: when the scenario's event loop gives up while a spawned run
  \* has not even ended (a schedule that starves the pool), dropping the matcher cancels that run - nothing was lost
  (IF run.lastTick.running /\ run.lastTick.seq > 0 /\ run.wokenSeq < run.lastTick.seq /\ run.outstandingAtDrop = 0
   THEN Bad(\E nn \in run.notifies : nn[1] > run.lastTick.seq, "lost_wakeup_tick_reported_running_but_no_notify_followed")
   ELSE {})

\* ---- known findings: none at this level any more.  The two schedule signatures of the lost wake-up that used to be
\* recognised here (flag read before the tick re-armed it; notify before the unlock) were repaired in the code
\* (known_findings.json, `fixed`); any lost wake-up is a violation again.
KnownId(run, clause) == ""

PushNotifyFails(run, c, e) ==   \* an injector call c returning at event e
  LET mine == {nn \in run.notifies : nn[2] = c.tid /\ nn[1] > c.seq /\ nn[1] < e.seq}
      st == {x \in run.stores : x[2] = c.tid /\ x[1] > c.seq /\ x[1] < e.seq} IN
  Bad(mine # {}, "push_did_not_notify")
  \cup (IF mine = {} \/ st = {} THEN {} ELSE Bad(\E nn \in mine : \A x \in st : x[1] < nn[1], "push_notified_before_item_visible"))

\* ---- C11 (handle level) ---------------------------------------------------------------------------------
DropTimeFails(run, e) ==   \* an entry of allocation e.base is being dropped
  LET s == IF e.base \in DOMAIN run.baseStream THEN run.baseStream[e.base] ELSE -1 IN
  IF s < 0 THEN {} ELSE
  Bad(\A h \in run.handles : h[2] # s \/ h[1] \in run.dropping, "item_dropped_while_injector_alive")
  \cup Bad(s # run.cur \/ run.nucleoDropping, "item_of_current_stream_dropped_while_matcher_alive")
  \* the snapshot keeps its stream alive until it is replaced (tick.snapshot_update) or cleared (restart(true))
  \cup Bad(DumpStream(run.lastDump) # s \/ run.nucleoDropping \/ run.updSinceDump, "item_dropped_while_snapshot_shows_it")

FinalDropFails(run, e) ==
  LET created == UNION {Vals(c) : c \in run.started}
      all == e.dropped_before \o e.dropped_after IN
  Bad(Len(all) = Cardinality(SeqToSet(all)), "item_dropped_twice")
  \cup Bad(SeqToSet(all) = created, "item_leaked_or_invented")

Init == npos = 1 /\ nrun = EmptyRun /\ nstat = [events |-> 0, runs |-> 0, dumps |-> 0, ticks |-> 0, quiescent |-> 0, fails |-> 0, aborted |-> 0]

Report(run, F, e) == IF F = {} THEN TRUE ELSE PrintT(ToJson([ev |-> "JUDGE", run |-> run.id, scenario |-> run.scenario, seq |-> e.seq, viol |-> F, known |-> {}]))

Step ==
  /\ npos <= Len(NRec)
  /\ LET e == NRec[npos] IN
     /\ npos' = npos + 1
     /\ IF e.site = "reset" THEN
             /\ nrun' = [EmptyRun EXCEPT !.id = e.run, !.scenario = e.scenario, !.items = e.items]
             /\ nstat' = [nstat EXCEPT !.events = @ + 1, !.runs = @ + 1]
        ELSE IF e.site = "abort" THEN
             \* a crash between a restart and the first snapshot taken from the new stream is the old stream's bookkeeping
             \* acting on the matcher (C12; the changelog's 'crash when restarting picker with fast active stream')
             /\ Report(nrun, {"library_panicked"} \cup (IF nrun.restartSeq > 0 /\ ~nrun.updatedSince THEN {"library_crashed_before_first_snapshot_of_new_stream"} ELSE {})
                              \* the UI thread died inside an observation (dump = snapshot accessors + active_injectors())
                              \cup (IF e.role = "main" /\ e.tid \in DOMAIN nrun.obsSeq /\ nrun.obsSeq[e.tid] > nrun.lastDump.seq
                                    THEN {"panic_while_reading_snapshot_or_handle_count"} ELSE {}), e)
             /\ nrun' = [nrun EXCEPT !.aborted = TRUE]
             /\ nstat' = [nstat EXCEPT !.events = @ + 1, !.fails = @ + 1, !.aborted = @ + 1]
        ELSE IF e.site = "notify" THEN
             /\ nrun' = [nrun EXCEPT !.notifies = @ \cup {<<e.seq, e.tid, (e.role \in {"pool0", "pool1", "pool2", "pool3", "pool4", "pool5", "pool6", "pool7"})>>}]
             /\ nstat' = [nstat EXCEPT !.events = @ + 1]
        ELSE IF e.site = "atomic" THEN
             /\ nrun' = IF e.loc = "active" /\ e.op = "store" THEN [nrun EXCEPT !.stores = @ \cup {<<e.seq, e.tid>>}]
                        ELSE IF e.loc = "should_notify" /\ e.op = "load"
                             THEN [nrun EXCEPT !.snLoads = @ \cup {<<e.seq, e.val, e.tid \in DOMAIN nrun.lastSite /\ nrun.lastSite[e.tid] = "run.unlocked">>}]
                        ELSE IF e.loc = "should_notify" /\ e.op = "store" /\ e.val = 1 THEN [nrun EXCEPT !.snArms = @ \cup {e.seq}]
                        ELSE nrun
             /\ nstat' = [nstat EXCEPT !.events = @ + 1]
        ELSE IF e.site = "entry.write" THEN
             \* the writing thread's pending call tells which stream this allocation belongs to
             LET cs == {c \in nrun.started : c.tid = e.tid /\ \A d \in nrun.finished : d.seq # c.seq} IN
             /\ nrun' = IF cs = {} \/ e.base \in DOMAIN nrun.baseStream THEN nrun
                        ELSE [nrun EXCEPT !.baseStream = [b \in DOMAIN @ \cup {e.base} |-> IF b = e.base THEN (CHOOSE c \in cs : TRUE).stream ELSE @[b]]]
             /\ nstat' = [nstat EXCEPT !.events = @ + 1]
        ELSE IF e.site = "entry.drop" THEN
             LET F == DropTimeFails(nrun, e) IN
             /\ Report(nrun, F, e)
             /\ nrun' = nrun
             /\ nstat' = [nstat EXCEPT !.events = @ + 1, !.fails = @ + Cardinality(F)]
        ELSE IF e.site = "tick.snapshot_update" THEN
             /\ nrun' = [nrun EXCEPT !.updatedSince = TRUE, !.updSinceDump = TRUE]
             /\ nstat' = [nstat EXCEPT !.events = @ + 1]
        ELSE IF e.site = "quiescent" THEN
             /\ nrun' = [nrun EXCEPT !.quiescent = TRUE]
             /\ nstat' = [nstat EXCEPT !.events = @ + 1, !.quiescent = @ + 1]
        ELSE IF e.site = "call" THEN
             (IF e.api \in {"push", "extend"} THEN
                  nrun' = [nrun EXCEPT !.started = @ \cup {[tid |-> e.tid, api |-> e.api, seq |-> e.seq, stream |-> e.stream,
                                                             v |-> IF e.api = "push" THEN e.v ELSE 0,
                                                             vals |-> IF e.api = "extend" THEN e.vals ELSE <<>>]}]
              ELSE IF e.api = "tick" THEN
                  nrun' = [nrun EXCEPT !.tick = [seq |-> e.seq, pat |-> e.pat, stream |-> e.stream, before |-> nrun.lastDump], !.quiescent = FALSE]
              ELSE IF e.api = "drop_injector" THEN nrun' = [nrun EXCEPT !.dropping = @ \cup {e.h}, !.obsSeq = (e.tid :> e.seq) @@ @]
              ELSE IF e.api \in {"dump", "injector"} THEN nrun' = [nrun EXCEPT !.obsSeq = (e.tid :> e.seq) @@ @]
              ELSE IF e.api = "drop_nucleo" THEN nrun' = [nrun EXCEPT !.nucleoDropping = TRUE, !.outstandingAtDrop = nrun.spawned - nrun.finishedRuns]
              ELSE IF e.api = "reparse" THEN nrun' = [nrun EXCEPT !.pat = e.pat, !.quiescent = FALSE, !.wokenSeq = e.seq]
              ELSE IF e.api = "restart" THEN
                  nrun' = [nrun EXCEPT !.preRestart = nrun.lastDump, !.quiescent = FALSE, !.pendingClear = e.clear, !.wokenSeq = e.seq,
                                       !.updSinceDump = @ \/ e.clear]
              ELSE IF e.api = "clone_injector" THEN nrun' = [nrun EXCEPT !.cloneStream = e.stream, !.obsSeq = (e.tid :> e.seq) @@ @]
              ELSE nrun' = nrun)
             /\ nstat' = [nstat EXCEPT !.events = @ + 1]
        ELSE IF e.site = "ret" THEN
             (IF e.api \in {"push", "extend"} THEN
                  LET cs == {c \in nrun.started : c.tid = e.tid /\ c.api = e.api /\ \A d \in nrun.finished : d.seq # c.seq}
                      c == CHOOSE x \in cs : TRUE
                      F == IF cs = {} THEN {"return_without_call"} ELSE PushNotifyFails(nrun, c, e) IN
                  /\ Report(nrun, F, e)
                  /\ nrun' = IF cs = {} THEN nrun
                             ELSE [nrun EXCEPT !.finished = @ \cup {c @@ [rseq |-> e.seq, idx |-> IF e.api = "push" THEN e.idx ELSE -1]}]
                  /\ nstat' = [nstat EXCEPT !.events = @ + 1, !.fails = @ + Cardinality(F)]
              ELSE IF e.api = "tick" THEN
                  /\ nrun' = [nrun EXCEPT !.lastTick = [seq |-> nrun.tick.seq, rseq |-> e.seq, running |-> e.running, changed |-> e.changed]]
                  /\ nstat' = [nstat EXCEPT !.events = @ + 1, !.ticks = @ + 1]
              ELSE IF e.api = "restart" THEN
                  /\ nrun' = [nrun EXCEPT !.cur = e.stream, !.restartSeq = e.seq, !.updatedSince = FALSE, !.restartClear = nrun.pendingClear]
                  /\ nstat' = [nstat EXCEPT !.events = @ + 1]
              ELSE IF e.api \in {"injector", "clone_injector"} THEN
                  LET h == <<e.h, IF e.api = "injector" THEN nrun.cur ELSE nrun.cloneStream>>
                      run2 == [nrun EXCEPT !.handles = @ \cup {h}]
                      F == ActiveFails(run2, e.active, e.tid) IN
                  /\ Report(nrun, F, e)
                  /\ nrun' = run2
                  /\ nstat' = [nstat EXCEPT !.events = @ + 1, !.fails = @ + Cardinality(F)]
              ELSE IF e.api = "drop_injector" THEN
                  LET run2 == [nrun EXCEPT !.handles = {h \in @ : h[1] # e.h}, !.dropping = @ \ {e.h},
                                           !.gone = @ \cup {<<h[1], h[2], e.seq>> : h \in {x \in nrun.handles : x[1] = e.h}}]
                      F == ActiveFails(run2, e.active, e.tid) IN
                  /\ Report(nrun, F, e)
                  /\ nrun' = run2
                  /\ nstat' = [nstat EXCEPT !.events = @ + 1, !.fails = @ + Cardinality(F)]
              ELSE IF e.api = "dump" THEN
                  LET d == [count |-> e.count, pat |-> e.pat, matches |-> e.matches, seq |-> e.seq]
                      afterTick == nrun.lastTick.rseq > nrun.lastDump.seq /\ nrun.lastTick.rseq > 0
                      F == (IF nrun.aborted THEN {} ELSE
                              SnapshotFails(nrun, d, e.seq)
                              \cup RestartFails(nrun, d, e.seq)
                              \cup ActiveFails(nrun, e.active, e.tid)
                              \cup (IF afterTick THEN StatusFails(nrun, d, e.seq) ELSE {})
                              \cup (IF nrun.quiescent /\ ~nrun.lastTick.running THEN FromScratchFails(nrun, d, e.seq) ELSE {})) IN
                  /\ Report(nrun, F, e)
                  /\ nrun' = [nrun EXCEPT !.lastDump = d, !.updSinceDump = FALSE]
                  /\ nstat' = [nstat EXCEPT !.events = @ + 1, !.dumps = @ + 1, !.fails = @ + Cardinality(F)]
              ELSE IF e.api = "drop_nucleo" THEN
                  LET F == IF nrun.aborted THEN {} ELSE FinalDropFails(nrun, e) IN
                  /\ Report(nrun, F, e)
                  /\ nrun' = nrun
                  /\ nstat' = [nstat EXCEPT !.events = @ + 1, !.fails = @ + Cardinality(F)]
              ELSE /\ nrun' = nrun /\ nstat' = [nstat EXCEPT !.events = @ + 1])
        ELSE IF e.site = "end" THEN
             LET F == EndFails(nrun, e)
                 V == {x \in F : KnownId(nrun, x) = ""}
                 K == {KnownId(nrun, x) : x \in F \ V} IN
             /\ IF F = {} THEN TRUE ELSE PrintT(ToJson([ev |-> "JUDGE", run |-> nrun.id, scenario |-> nrun.scenario, seq |-> e.seq, viol |-> V, known |-> K]))
             /\ nrun' = nrun
             /\ nstat' = [nstat EXCEPT !.events = @ + 1, !.fails = @ + Cardinality(V)]
        ELSE /\ nrun' = [nrun EXCEPT !.lastSite = [t \in DOMAIN @ \cup {e.tid} |-> IF t = e.tid THEN e.site ELSE @[t]],
                                    !.tryFails = IF e.site = "tick.try_lock_failed" THEN @ \cup {e.seq} ELSE @,
                                    !.runEnds = IF e.site = "run.end" THEN @ \cup {e.seq} ELSE @,
                                    !.spawned = IF e.site = "tick.spawn" THEN @ + 1 ELSE @,
                                    !.finishedRuns = IF e.site = "run.done" THEN @ + 1 ELSE @]
             /\ nstat' = [nstat EXCEPT !.events = @ + 1]

Done == npos > Len(NRec) /\ PrintT(ToJson([ev |-> "DONE", stat |-> nstat])) /\ UNCHANGED nvars
Next == Step \/ Done
=============================================================================
