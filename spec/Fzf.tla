-------------------------------- MODULE Fzf --------------------------------
(***************************************************************************)
(* The fzf-compatible scoring scheme and the match relations of the        *)
(* nucleo matcher, written from the documentation (README "Implementation  *)
(* Details", the doc comments of score.rs / Matcher, and the statements of *)
(* C01-C05) -- NOT read from the constants in score.rs: the literals       *)
(* 16/3/1/10/9/8/5/4/x2 live here.                                         *)
(*                                                                         *)
(* All operators work on a haystack given as two sequences of equal length *)
(*   N : the normalised code points   (Chars!NormSeq)                      *)
(*   K : the character classes        (Chars!ClassSeq)                     *)
(* and a needle given as a sequence of (already normalised) code points.   *)
(* Positions are 1-based here; the code reports 0-based indices.           *)
(***************************************************************************)
EXTENDS Chars, SlabLayout

Max2(a, b) == IF a > b THEN a ELSE b
Min2(a, b) == IF a < b THEN a ELSE b
Sat(a, b) == IF a > b THEN a - b ELSE 0          \* saturating subtraction (floor at zero)
SetMax(S) == CHOOSE s \in S : \A t \in S : s >= t
SetMin(S) == CHOOSE s \in S : \A t \in S : s =< t

ScoreMatch == 16
GapStart == 3
GapExt == 1
BonusBoundary == 8
BonusCamel == 5
BonusConsecutive == 4
FirstCharMultiplier == 2
MaxPrefixBonus == 8

BonusWhite(paths) == IF paths THEN 8 ELSE 10     \* word boundary after whitespace / start of text
BonusDelim(paths) == 9                           \* word boundary after a delimiter
InitClass(paths) == IF paths THEN "dl" ELSE "ws" \* class assumed before the first character

\* bonus of a character of class c preceded by a character of class p
Bonus(p, c, paths) ==
  IF IsWord(c) /\ p = "ws" THEN BonusWhite(paths)
  ELSE IF IsWord(c) /\ p = "dl" THEN BonusDelim(paths)
  ELSE IF IsWord(c) /\ p = "nw" THEN BonusBoundary
  ELSE IF (p = "lo" /\ c = "up") \/ (p # "nu" /\ c = "nu") THEN BonusCamel
  ELSE IF c = "ws" THEN BonusWhite(paths)
  ELSE IF c = "nw" THEN BonusBoundary
  ELSE 0

BonusAt(K, i, paths) == Bonus(IF i = 1 THEN InitClass(paths) ELSE K[i-1], K[i], paths)

MaxBonus(paths) == Max2(BonusWhite(paths), BonusDelim(paths))

(***************************************************************************)
(* AlignScore: the score of one alignment idx (strictly increasing         *)
(* 1-based positions, one per needle character).                           *)
(***************************************************************************)
\* one step of the left fold over the alignment; st = [s |-> running score, f |-> bonus of the current run]
ASStep(K, idx, j, st, paths) ==
  LET i == idx[j]
      b == BonusAt(K, i, paths) IN
  IF j = 1 THEN [s |-> ScoreMatch + FirstCharMultiplier * b, f |-> b]
  ELSE IF i = idx[j-1] + 1 THEN
      \* consecutive: at least BonusConsecutive, inherits the run's first bonus,
      \* a boundary bonus larger than the run's bonus takes over
      LET f2 == IF b >= BonusBoundary /\ b > st.f THEN b ELSE st.f IN
      [s |-> st.s + ScoreMatch + Max2(Max2(b, f2), BonusConsecutive), f |-> f2]
  ELSE \* a gap of g = i - idx[j-1] - 1 skipped characters: 3 for the first, 1 for each further one,
       \* the running score floored at zero
      [s |-> Sat(st.s, GapStart + GapExt * (i - idx[j-1] - 2)) + ScoreMatch + b, f |-> b]

\* the fold is evaluated by halving the index range: recursion depth log2(n) (TLC's cost for a recursion of
\* depth d grows like d^2 and needles reach several thousand characters)
RECURSIVE ASFold(_, _, _, _, _, _)
ASFold(K, idx, a, b, st, paths) ==
  IF a = b THEN ASStep(K, idx, a, st, paths)
  ELSE LET m == (a + b) \div 2 IN ASFold(K, idx, m + 1, b, ASFold(K, idx, a, m, st, paths), paths)

AlignScore(K, idx, paths) ==
  IF Len(idx) = 0 THEN 0 ELSE ASFold(K, idx, 1, Len(idx), [s |-> 0, f |-> 0], paths).s

\* the u16 range of the return type: a conforming implementation may saturate but never wrap
U16Max == 65535
Clamp16(x) == IF x > U16Max THEN U16Max ELSE x

(***************************************************************************)
(* Relations                                                               *)
(***************************************************************************)
\* leftmost-greedy subsequence test; returns TRUE iff needle occurs in order in N.
\* Iterative over the needle, with an explicit scan over N (no deep recursion on long N).
\* smallest p >= from with N[p] = c, or 0.  Written with bounded quantifiers instead of recursion over
\* positions: TLC's cost for a recursion of depth d grows like d^2, haystacks reach 70 000 characters.
FirstAt(N, c, from) ==
  IF \E p \in from..Len(N) : N[p] = c
  THEN CHOOSE p \in from..Len(N) : N[p] = c /\ \A q \in from..(p - 1) : N[q] # c
  ELSE 0

RECURSIVE GreedyFrom(_, _, _, _)
GreedyFrom(N, needle, j, from) ==    \* forward-greedy alignment of needle[j..] in N[from..] or <<0>> marker
  IF j > Len(needle) THEN <<>>
  ELSE LET p == FirstAt(N, needle[j], from) IN
       IF p = 0 THEN <<0>> ELSE <<p>> \o GreedyFrom(N, needle, j + 1, p + 1)

\* position of the last needle character in the forward-greedy alignment of needle[a..b] in N[from..], or 0.
\* Evaluated by halving the needle range (recursion depth log2 of the needle length).
RECURSIVE GreedyEnd(_, _, _, _, _)
GreedyEnd(N, needle, a, b, from) ==
  IF a = b THEN FirstAt(N, needle[a], from)
  ELSE LET m == (a + b) \div 2
           p == GreedyEnd(N, needle, a, m, from) IN
       IF p = 0 THEN 0 ELSE GreedyEnd(N, needle, m + 1, b, p + 1)

\* needle occurs in order in N (leftmost-greedy scan succeeds)
IsSubseq(needle, N) ==
  \/ Len(needle) = 0
  \/ Len(needle) <= Len(N) /\ GreedyEnd(N, needle, 1, Len(needle), 1) # 0

\* the set of all alignments (for small inputs only)
RECURSIVE Aligns(_, _, _)
Aligns(N, needle, from) ==
  IF needle = <<>> THEN {<<>>}
  ELSE UNION { { <<i>> \o r : r \in Aligns(N, Tail(needle), i + 1) } :
               i \in {x \in from..Len(N) : N[x] = Head(needle)} }

BestScore(N, K, needle, paths) ==
  LET A == Aligns(N, needle, 1) IN
  IF A = {} THEN -1 ELSE SetMax({AlignScore(K, a, paths) : a \in A})

\* is idx (1-based) a valid witness for needle in N ?
ValidWitness(N, needle, idx) ==
  /\ Len(idx) = Len(needle)
  /\ \A k \in 1..Len(idx) : idx[k] >= 1 /\ idx[k] <= Len(N) /\ N[idx[k]] = needle[k]
  /\ \A k \in 1..Len(idx) - 1 : idx[k] < idx[k+1]

Contiguous(idx) == \A k \in 1..Len(idx) - 1 : idx[k+1] = idx[k] + 1

(***************************************************************************)
(* NaiveRec: the two-matrix affine-gap recurrence (M = needle character i  *)
(* matched at column j, P = column j skipped after needle character i) on  *)
(* the FULL matrix, row by row.  A cell is [ok, s, cb] (cb = bonus carried *)
(* along a consecutive run).                                               *)
(***************************************************************************)
NoCell == [ok |-> FALSE, s |-> 0, cb |-> 0]

\* rows are made concrete tuples (SubSeq(.., 1, n)); a lazily evaluated function would be re-evaluated on
\* every access by the next row
FirstRow(N, K, c, paths) ==
  SubSeq([j \in 1..Len(N) |->
     IF N[j] = c THEN [ok |-> TRUE, s |-> ScoreMatch + FirstCharMultiplier * BonusAt(K, j, paths),
                       cb |-> BonusAt(K, j, paths)]
     ELSE NoCell], 1, Len(N))

\* P[k] = best score with column k skipped: max(M[k-1] - 3, P[k-1] - 1), floored at zero.
PCell(pm, pp) ==
  LET a == IF pm.ok THEN Sat(pm.s, GapStart) ELSE -1
      b == IF pp.ok THEN Sat(pp.s, GapExt) ELSE -1
      v == Max2(a, b) IN
  IF v < 0 THEN NoCell ELSE [ok |-> TRUE, s |-> v, cb |-> 0]

\* P cells of columns a..b given P[a-1]; evaluated by halving the range (recursion depth log2, see AlignScore)
RECURSIVE PRange(_, _, _, _)
PRange(M, a, b, prev) ==
  IF a = b THEN <<PCell(IF a = 1 THEN NoCell ELSE M[a-1], prev)>>
  ELSE LET m == (a + b) \div 2
           left == PRange(M, a, m, prev) IN
       left \o PRange(M, m + 1, b, left[Len(left)])

PRow(M) == IF Len(M) = 0 THEN <<>> ELSE PRange(M, 1, Len(M), NoCell)

NextRow(N, K, M, c, paths) ==
  LET P == PRow(M) IN
  SubSeq([j \in 1..Len(N) |->
     IF j = 1 \/ N[j] # c THEN NoCell
     ELSE LET m == M[j-1]
              p == P[j-1]     \* P[k] = best score with column k skipped (built from M[k-1], P[k-1])
              b == BonusAt(K, j, paths)
              cb0 == Max2(m.cb, BonusConsecutive)
              cb1 == IF b >= BonusBoundary /\ b > cb0 THEN b ELSE cb0
              sm == m.s + Max2(cb1, b)
              ss == p.s + b IN
          IF m.ok /\ (~p.ok \/ sm > ss) THEN [ok |-> TRUE, s |-> sm + ScoreMatch, cb |-> cb1]
          ELSE IF p.ok THEN [ok |-> TRUE, s |-> ss + ScoreMatch, cb |-> b]
          ELSE NoCell], 1, Len(N))

RECURSIVE Rows(_, _, _, _, _, _)
Rows(N, K, needle, i, M, paths) ==
  IF i > Len(needle) THEN M ELSE Rows(N, K, needle, i + 1, NextRow(N, K, M, needle[i], paths), paths)

NaiveRec(N, K, needle, paths) ==
  LET M == Rows(N, K, needle, 2, FirstRow(N, K, needle[1], paths), paths)
      S == { M[j].s : j \in {x \in 1..Len(N) : M[x].ok} } IN
  IF S = {} THEN -1 ELSE SetMax(S)

(***************************************************************************)
(* Substring / prefix / postfix / exact                                    *)
(***************************************************************************)
Occurrences(N, needle) ==
  {p \in 1..(Len(N) - Len(needle) + 1) : \A k \in 1..Len(needle) : N[p + k - 1] = needle[k]}

\* leftmost occurrence among those whose first character earns the highest bonus; 0 if none
SubstringPos(N, K, needle, paths) ==
  LET O == Occurrences(N, needle) IN
  IF O = {} THEN 0
  ELSE LET mb == SetMax({BonusAt(K, p, paths) : p \in O}) IN
       SetMin({p \in O : BonusAt(K, p, paths) = mb})

\* raw is the un-normalised haystack (whitespace is judged on it)
RECURSIVE LeadWhite(_, _)
LeadWhite(raw, k) == IF k > Len(raw) THEN Len(raw) ELSE IF IsWhite(raw[k]) THEN LeadWhite(raw, k + 1) ELSE k - 1
RECURSIVE TrailWhite(_, _)
TrailWhite(raw, k) == IF k < 1 THEN Len(raw) ELSE IF IsWhite(raw[k]) THEN TrailWhite(raw, k - 1) ELSE Len(raw) - k

\* number of haystack characters ignored at the start / at the end for a given (non-empty) needle
SkipLead(raw, needle) == IF IsWhite(needle[1]) THEN 0 ELSE LeadWhite(raw, 1)
SkipTrail(raw, needle) == IF IsWhite(needle[Len(needle)]) THEN 0 ELSE TrailWhite(raw, Len(raw))

Window(N, a, n) == [k \in 1..n |-> N[a + k - 1]]     \* n characters of N starting at position a

\* start position (1-based) of the match or 0
PrefixPos(N, raw, needle) ==
  LET a == SkipLead(raw, needle) + 1 IN
  IF a + Len(needle) - 1 <= Len(N) /\ Window(N, a, Len(needle)) = needle THEN a ELSE 0

PostfixPos(N, raw, needle) ==
  LET e == Len(N) - SkipTrail(raw, needle)
      a == e - Len(needle) + 1 IN
  IF a >= 1 /\ e >= a /\ Window(N, a, Len(needle)) = needle THEN a ELSE 0

ExactPos(N, raw, needle) ==
  LET a == SkipLead(raw, needle) + 1
      e == Len(N) - SkipTrail(raw, needle) IN
  IF e - a + 1 = Len(needle) /\ a >= 1 /\ Window(N, a, Len(needle)) = needle THEN a ELSE 0

(***************************************************************************)
(* Lemmas about the specification itself (checked by FzfMC on all small    *)
(* inputs): they make the oracle trustworthy before it judges the code.    *)
(***************************************************************************)
LemmaSubseqIffAligns(N, needle) == IsSubseq(needle, N) <=> (Aligns(N, needle, 1) # {})
LemmaNaiveBelowBest(N, K, needle, paths) ==
  needle # <<>> => NaiveRec(N, K, needle, paths) <= BestScore(N, K, needle, paths)
LemmaNaiveDecides(N, K, needle, paths) ==
  needle # <<>> => ((NaiveRec(N, K, needle, paths) >= 0) <=> IsSubseq(needle, N))
LemmaOneChar(N, K, needle, paths) ==
  Len(needle) = 1 => NaiveRec(N, K, needle, paths) = BestScore(N, K, needle, paths)
LemmaGreedyIsAlign(N, needle) ==
  /\ IsSubseq(needle, N) => GreedyFrom(N, needle, 1, 1) \in Aligns(N, needle, 1)
  /\ IsSubseq(needle, N) <=> (LET g == GreedyFrom(N, needle, 1, 1) IN Len(g) = Len(needle) /\ g[Len(g)] # 0)
=============================================================================
