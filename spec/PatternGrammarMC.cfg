CONSTANTS
  SigmaP = {33, 94, 39, 36, 92, 32, 9, 97, 66, 228}
  LT = 5
INIT Init
NEXT Next
INVARIANTS InvRoundTrip InvNoEmptyAtoms InvAtomCount InvNegatedNeverFuzzy InvIgnoreFolded InvSmartCase
CHECK_DEADLOCK FALSE
